/* C05 -- the round trip through the real binaries (binding check of the library harness):
 *
 *    echse merge --unroll DT FILE > M ;  echse unroll --from DT --till T --format '%b %e' M
 *  versus
 *    echse unroll --from DT --till T --format '%b %e' FILE
 *
 * for every schedule of the extension table (optionally a grammar slice) and every consumption
 * prefix k of the position sweep; DT is the k-th occurrence of the stream (so that merge pops exactly
 * k), T the (k+60)-th.  The two listings (begin and end of every occurrence) must be identical.
 * The same (schedule, k) is also run through the library harness; a disagreement between the two
 * verdicts is reported as a seam violation (the harness would not be exercising what the tools do).
 *
 * options: bin=<dir with echse> gram=0|1 ks=quick|full (+ the grammar options of c05_position)
 */
#include "vdrv.h"
#include "ref/icalio.h"
#include "ref/c05_sched.h"

static char dir[64];

static int run_status;

static size_t
run(char *out, size_t osz, const char *cmd)
{
	FILE *f = popen(cmd, "r");
	size_t n = 0;

	out[0] = '\0';
	run_status = -1;
	if (f == NULL) {
		return 0;
	}
	for (size_t r; n + 1 < osz && (r = fread(out + n, 1, osz - 1 - n, f)) > 0; n += r);
	/* drain the rest */
	for (char junk[4096]; fread(junk, 1, sizeof(junk), f) > 0;);
	run_status = pclose(f);
	out[n] = '\0';
	return n;
}

/* the binaries under /repo/src are relinked whenever somebody runs make there: work on a private copy */
static int
private_copy(char *dst, size_t dsz, const char *bin, const char *dir)
{
	char cmd[512];
	char out[256];

	snprintf(dst, dsz, "%s/echse", dir);
	snprintf(cmd, sizeof(cmd), "cp %s/echse %s 2>&1 && %s --version 2>&1", bin, dst, dst);
	for (int i = 0; i < 100; i++) {
		(void)run(out, sizeof(out), cmd);
		if (run_status == 0) {
			return 0;
		}
		vd_beat();
		usleep(200000);
	}
	return -1;
}

static void
dtarg(char *buf, size_t bsz, uint64_t u)
{
	echs_instant_t i;
	i.u = u;
	if (echs_instant_all_day_p(i)) {
		snprintf(buf, bsz, "%04u%02u%02u", i.y & 0xfffU, i.m & 0xfU, i.d & 0x3fU);
	} else {
		snprintf(buf, bsz, "%04u%02u%02uT%02u%02u%02uZ", i.y & 0xfffU, i.m & 0xfU, i.d & 0x3fU, i.H, i.M, i.S);
	}
}

static void
noattr(int fld, const char *how, const char *want, const char *got, void *clo)
{
	(void)fld, (void)how, (void)want, (void)got, (void)clo;
}

struct cli_s {
	const char *bin;
	int full_k;
	char src[96], mfile[96], exe[96];
};

static void
per_schedule(const char *kind, const char *lines, void *clo)
{
	const struct cli_s *o = clo;
	static char text[4096], cmd[1024], merged[16384], left[32768], right[32768];
	static struct c05_occ occ[464];
	static struct c05_rt_s r;
	char flat[640];
	int ks[48], nk, n, nocc, more;
	echs_task_t t;
	FILE *f;

	c05_flat(flat, sizeof(flat), lines);
	vd_desc("%s", flat);
	c05_fields_text(text, sizeof(text), "c05-cli@verif", C05_POS_ATTRS, 0, 0, 0, lines);
	if ((t = ical_task1(text)) == NULL) {
		return;
	}
	nocc = c05_drain(t->strm, occ, 460, &more);
	free_echs_task(t);
	n = more ? -1 : nocc;
	if ((f = fopen(o->src, "w")) == NULL) {
		return;
	}
	fputs(text, f);
	fclose(f);
	nk = c05_klist(ks, 48, n, o->full_k);
	for (int j = 0; j < nk; j++) {
		const int k = ks[j];
		const char *kcl = c05_kclass(k, n);
		char dt[32], till[32], sig[VD_SIGLEN];
		int cli_differ = 0, line = 0, lib_differ;
		const char *pl, *pr;

		if (k >= nocc) {
			/* everything consumed: cut behind the last occurrence */
			if (n < 0 || nocc == 0) {
				continue;
			}
			snprintf(dt, sizeof(dt), "20991231T235959Z");
			snprintf(till, sizeof(till), "20991231T235959Z");
		} else {
			echs_instant_t ik;
			ik.u = occ[k].from;
			if (ik.y >> 12) {
				/* instants in a non-Gregorian scale cannot be given to --from */
				vd_count("skipped_scaled_instant", 1);
				continue;
			}
			dtarg(dt, sizeof(dt), occ[k].from);
			if (k + 60 < nocc) {
				dtarg(till, sizeof(till), occ[k + 60].from);
			} else {
				snprintf(till, sizeof(till), "20991231T235959Z");
			}
		}
		vd_beat();
		vd_sh->evals++;
		vd_desc("%s | echse merge --unroll %s | echse unroll --from %s --till %s  vs  echse unroll --from %s --till %s (k=%d)",
			flat, dt, dt, till, dt, till, k);
		snprintf(cmd, sizeof(cmd), "%s merge --unroll %s %s 2>&1", o->exe, dt, o->src);
		(void)run(merged, sizeof(merged), cmd);
		if (run_status != 0 || strstr(merged, "END:VCALENDAR") == NULL) {
			snprintf(sig, sizeof(sig), "cli-broken/merge/%s/%s", kcl, kind);
			vd_viol(sig, "echse merge failed (wait status %#x): %.200s", run_status, merged);
			continue;
		}
		if ((f = fopen(o->mfile, "w")) == NULL) {
			continue;
		}
		fputs(merged, f);
		fclose(f);
		snprintf(cmd, sizeof(cmd), "%s unroll --from %s --till %s --format '%%b %%e' %s 2>&1", o->exe, dt, till, o->mfile);
		(void)run(left, sizeof(left), cmd);
		snprintf(cmd, sizeof(cmd), "%s unroll --from %s --till %s --format '%%b %%e' %s 2>&1", o->exe, dt, till, o->src);
		(void)run(right, sizeof(right), cmd);
		if (right[0] && k >= 1) {
			vd_nontrivial();
		}
		/* first differing line */
		for (pl = left, pr = right; *pl || *pr; line++) {
			const char *el = strchr(pl, '\n'), *er = strchr(pr, '\n');
			const size_t ll = el ? (size_t)(el - pl) : strlen(pl), lr = er ? (size_t)(er - pr) : strlen(pr);
			if (ll != lr || memcmp(pl, pr, ll)) {
				cli_differ = 1;
				break;
			}
			pl += ll + (el != NULL);
			pr += lr + (er != NULL);
		}
		/* the library harness on the same case */
		lib_differ = 0;
		if (c05_roundtrip(&r, text, lines, k, C05_FORM_ECHSQ, noattr, NULL) == 0) {
			lib_differ = r.differ || r.durdiffer || r.rejected || r.ghost;
		}
		if (vd_want_sample() && k >= 1 && right[0]) {
			vd_sample("%s | k=%d DT=%s: both listings %s (first line %.*s)", flat, k, dt, cli_differ ? "differ" : "agree",
				  (int)strcspn(right, "\n"), right);
		}
		if (cli_differ) {
			char l1[80], l2[80];
			snprintf(l1, sizeof(l1), "%.*s", (int)strcspn(pl, "\n"), pl);
			snprintf(l2, sizeof(l2), "%.*s", (int)strcspn(pr, "\n"), pr);
			int nl = 0, nr = 0;
			for (const char *q = left; *q; q++) nl += *q == '\n';
			for (const char *q = right; *q; q++) nr += *q == '\n';
			snprintf(sig, sizeof(sig), "remaining/%s/%s/%s", c05_whatchanged(lines, merged, nr, nl, line), kcl, kind);
			vd_viol(sig, "line %d: after merge '%s', direct '%s'", line, l1[0] ? l1 : "(end)", l2[0] ? l2 : "(end)");
		}
		if ((cli_differ && !lib_differ) || (lib_differ && !cli_differ && r.cut < 40 && !r.durdiffer)) {
			snprintf(sig, sizeof(sig), "seam/%s/%s/%s", cli_differ ? "cli-only" : "lib-only", kcl, kind);
			vd_viol(sig, "binaries say the listings %s, the library harness says the streams %s (%s)",
				cli_differ ? "differ" : "agree", lib_differ ? "differ" : "agree", r.detail);
		}
	}
}

static void
enumerate(void)
{
	struct cli_s o = {vd_opt("bin", "/repo/src"), !strcmp(vd_opt("ks", "quick"), "full")};

	vd_count_cases = 0;
	snprintf(dir, sizeof(dir), "/tmp/c05cli_XXXXXX");
	if (mkdtemp(dir) == NULL) {
		return;
	}
	snprintf(o.src, sizeof(o.src), "%s/src.ics", dir);
	snprintf(o.mfile, sizeof(o.mfile), "%s/merged.ics", dir);
	if (private_copy(o.exe, sizeof(o.exe), o.bin, dir) < 0) {
		fprintf(stderr, "c05_cli: cannot copy %s/echse\n", o.bin);
		rmdir(dir);
		_exit(3);
	}
	c05_for_schedules(1, (int)vd_opt_l("gram", 0), (int)vd_opt_l("maxparts", 1), (int)vd_opt_l("menucap", 1),
			  vd_opt("intervals", "1"), (int)vd_opt_l("anchors", 1), !strcmp(vd_opt("terms", "quick"), "full"),
			  (int)vd_opt_l("date3", 0), per_schedule, &o);
	unlink(o.src);
	unlink(o.mfile);
	unlink(o.exe);
	rmdir(dir);
}

int
main(int argc, char *argv[])
{
	return vd_main(argc, argv, enumerate);
}
