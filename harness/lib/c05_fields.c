/* C05 sweep 1 -- tasks are read as written (README field mapping), alone and in every combination,
 * and keep their attributes when written out and read back.
 *
 * mode=map   case = (subset of the 16 event-level properties, calendar-level defaults none|all);
 *            inside: 2 value variants x 2 property orders.  text -> parser -> task; every attribute
 *            must be what the README table assigns to the text (calendar-level X-ECHS-* only where the
 *            event is silent).  The task is then written in echsq's and in echsd's form and read back:
 *            attributes must be unchanged.
 * mode=ckpt  case = (task A, task B) each with at most one property or all of them: both are written
 *            into one calendar the way echsd's checkpoint does (header from the first task) and read
 *            back; each must come back with its own attributes.
 *
 * options: mode=map|ckpt  maxsub=N minfull=N  (map: subsets with <= maxsub or >= minfull members)
 */
#include "vdrv.h"
#include "ref/icalio.h"
#include "ref/c05_common.h"

#define SCHED	"DTSTART:20300101T000000Z\n"

struct clo_s {
	const char *clause;
	const char *ctx;
	const char *what;
};

static void
diff_cb(int fld, const char *how, const char *want, const char *got, void *clo)
{
	const struct clo_s *c = clo;
	char sig[VD_SIGLEN];
	snprintf(sig, sizeof(sig), "%s/%s/%s/%s", c->clause, c05_fname[fld], how, c->ctx);
	vd_viol(sig, "%s: %s says %s, %s has %s", c05_fname[fld], c->what, want, c->clause[0] == 'm' ? "the task read" : "the task read back", got);
}

static int
popcnt(unsigned x)
{
	int n = 0;
	for (; x; x &= x - 1) n++;
	return n;
}

static void
mode_map(void)
{
	const int maxsub = (int)vd_opt_l("maxsub", 16), minfull = (int)vd_opt_l("minfull", 0);
	static char text[4096], written[8192];

	for (int pc = 0; pc <= C05_NFLD && !vd_stop(); pc++) {
		if (pc > maxsub && pc < minfull) {
			continue;
		}
		for (unsigned mask = 0; mask < 1U << C05_NFLD; mask++) {
			if (popcnt(mask) != pc) {
				continue;
			}
			for (int cal = 0; cal < 2; cal++) {
				char ms[256];
				const char *ctx = mask >> F_SUID & 1U ? "suid=ev" : cal ? "suid=cal" : "suid=none";

				if (!vd_next()) {
					continue;
				}
				c05_maskstr(ms, sizeof(ms), mask);
				vd_shape("fields/n=%d/cal=%d", pc, cal);
				if (pc >= 2) {
					vd_nontrivial();
				}
				for (int var = 0; var < 2; var++) {
					for (int rev = 0; rev < 2; rev++) {
						struct c05_obs want, got, back;
						struct clo_s c = {"map", ctx, "the text"};
						echs_task_t t;

						vd_sh->evals++;
						vd_desc("event with {%s} (values #%d, %s order), calendar-level defaults %s", ms, var,
							rev ? "reverse" : "table", cal ? "MAX-SIMUL,UMASK,SETUID,SETGID,OWNER" : "none");
						c05_fields_text(text, sizeof(text), "c05-map@verif", mask, var, rev, cal, SCHED);
						c05_fields_expect(&want, "c05-map@verif", mask, var, rev, cal);
						if ((t = ical_task1(text)) == NULL) {
							char sig[VD_SIGLEN];
							snprintf(sig, sizeof(sig), "map/task/rejected/%s", ctx);
							vd_viol(sig, "the parser yields no task");
							continue;
						}
						c05_observe(&got, t);
						c05_cmp_obs(&want, &got, C05_CMP_UID | C05_CMP_OWNER | C05_CMP_MRUN_EFFECTIVE, diff_cb, &c);
						if (vd_want_sample() && pc == 3) {
							vd_sample("{%s} cal=%d values #%d -> cmd=%s wd=%s sh=%s out=%s umask=%#o max-simul=%d run-as=%s:%s owner=%s",
								  ms, cal, var, got.cmd ? got.cmd : "-", got.wd ? got.wd : "-", got.sh ? got.sh : "-",
								  got.out ? got.out : "-", (unsigned)(got.umask < 0 ? 07777 : got.umask), got.maxsim, got.suid, got.sgid, got.owner);
						}
						/* write and read back, both forms */
						for (int form = 0; form < 2; form++) {
							const echs_task_t one[1] = {t};
							struct clo_s rc = {form == C05_FORM_ECHSD ? "rt-echsd" : "rt-echsq", ctx, "the task"};
							echs_task_t b[2];
							ssize_t wl = c05_seria(written, sizeof(written), one, 1U, form);
							size_t nb = wl > 0 ? ical_tasks(b, 2U, written, (size_t)wl) : 0U;

							if (nb != 1U) {
								char sig[VD_SIGLEN];
								snprintf(sig, sizeof(sig), "%s/task/%s/%s", rc.clause, nb ? "split" : "rejected", ctx);
								vd_viol(sig, "one task written, %zu read back", nb);
							} else {
								c05_observe(&back, b[0]);
								c05_cmp_obs(&got, &back, C05_CMP_UID | (form == C05_FORM_ECHSD ? C05_CMP_OWNER : 0), diff_cb, &rc);
							}
							for (size_t i = 0; i < nb; i++) {
								free_echs_task(b[i]);
							}
						}
						free_echs_task(t);
					}
				}
			}
		}
	}
}

static void
mode_ckpt(void)
{
	static char ta[4096], tb[4096], written[16384];
	unsigned masks[C05_NFLD + 2];
	int nm = 0;

	masks[nm++] = 0U;
	for (int f = 0; f < C05_NFLD; f++) {
		masks[nm++] = 1U << f;
	}
	masks[nm++] = (1U << C05_NFLD) - 1U;

	for (int ia = 0; ia < nm && !vd_stop(); ia++) {
		for (int ib = 0; ib < nm; ib++) {
			for (int cal = 0; cal < 2; cal++) {
				char ma[256], mb[256];

				if (!vd_next()) {
					continue;
				}
				vd_shape("ckpt/cal=%d", cal);
				c05_maskstr(ma, sizeof(ma), masks[ia]);
				c05_maskstr(mb, sizeof(mb), masks[ib]);
				if (masks[ia] || masks[ib]) {
					vd_nontrivial();
				}
				for (int var = 0; var < 2; var++) {
					echs_task_t t[2], b[3];
					struct c05_obs o[2], back;
					size_t nb;
					ssize_t wl;

					vd_sh->evals++;
					vd_desc("checkpoint of task A {%s} and task B {%s} (values #%d), both submitted under calendar-level defaults %s",
						ma, mb, var, cal ? "MAX-SIMUL,UMASK,SETUID,SETGID,OWNER" : "none");
					c05_fields_text(ta, sizeof(ta), "c05-ckpt-a@verif", masks[ia], var, 0, cal, SCHED);
					c05_fields_text(tb, sizeof(tb), "c05-ckpt-b@verif", masks[ib], var, 0, cal, SCHED);
					t[0] = ical_task1(ta);
					t[1] = ical_task1(tb);
					if (t[0] == NULL || t[1] == NULL) {
						vd_viol("ckpt/task/rejected/source", "the parser yields no task");
					} else {
						c05_observe(&o[0], t[0]);
						c05_observe(&o[1], t[1]);
						wl = c05_seria(written, sizeof(written), t, 2U, C05_FORM_ECHSD);
						nb = wl > 0 ? ical_tasks(b, 3U, written, (size_t)wl) : 0U;
						if (nb != 2U) {
							vd_viol("ckpt/task/count/any", "two tasks written, %zu read back", nb);
						} else {
							for (int i = 0; i < 2; i++) {
								struct clo_s c = {"ckpt", i ? "task=second" : "task=first", "the task"};
								c05_observe(&back, b[i]);
								c05_cmp_obs(&o[i], &back, C05_CMP_UID | C05_CMP_OWNER, diff_cb, &c);
							}
						}
						for (size_t i = 0; i < nb; i++) {
							free_echs_task(b[i]);
						}
					}
					if (t[0]) free_echs_task(t[0]);
					if (t[1]) free_echs_task(t[1]);
				}
			}
		}
	}
}

static void
enumerate(void)
{
	vd_count_cases = 0;
	if (!strcmp(vd_opt("mode", "map"), "ckpt")) {
		mode_ckpt();
	} else {
		mode_map();
	}
}

int
main(int argc, char *argv[])
{
	return vd_main(argc, argv, enumerate);
}
