/* C05 -- fields near the 1 KiB line limit are read as written, however the line is spelled and however it arrives.
 *
 * For each of four text fields (SUMMARY = command, LOCATION = working directory, X-ECHS-OFILE, DESCRIPTION) and
 * every unfolded line length L in lo..hi (property name and colon included) one event is written in four
 * spellings: plain with LF, plain with CRLF, folded at 75 octets with LF, folded at 75 octets with CRLF.
 *   (a) all four spellings must read to the same task attributes;
 *   (b) a line of up to 1023 octets (unfolded) must be read completely, one beyond the limit is dropped as a
 *       whole by every spelling (the limit is on the unfolded line; this is what the plain LF spelling does);
 *   (c) each spelling is also pushed in two pieces with the cut at every position within 2 octets of each of its
 *       first three and last two line breaks / folds: the task must not change.
 */
#include "vdrv.h"
#include "ref/icalio.h"
#include "evical.h"

struct attr_s {
	char cmd[1200], wd[1200], ofile[1200], desc[1200];
	int have;
};

static const char *const fields[] = {"SUMMARY", "LOCATION", "X-ECHS-OFILE", "DESCRIPTION"};

static void
get_attr(struct attr_s *a, echs_task_t t)
{
	memset(a, 0, sizeof(*a));
	if (t == NULL) return;
	a->have = 1;
	if (t->cmd) snprintf(a->cmd, sizeof(a->cmd), "%s", t->cmd);
	if (t->run_as.wd) snprintf(a->wd, sizeof(a->wd), "%s", t->run_as.wd);
	if (t->out) snprintf(a->ofile, sizeof(a->ofile), "%s", t->out);
}

/* the event with FIELD's line of unfolded length L in spelling SP (bit 0: CRLF, bit 1: folded at 75) */
static size_t
spell(char *buf, size_t bsz, int field, int L, int sp, size_t *breaks, int *nbreaks)
{
	const char *nl = sp & 1 ? "\r\n" : "\n";
	static char line[1200];
	const size_t nlen = strlen(fields[field]) + 1;
	size_t o = 0;

	*nbreaks = 0;
	snprintf(line, sizeof(line), "%s:", fields[field]);
	for (size_t i = nlen; i < (size_t)L; i++) line[i] = (char)(field == 0 && i == nlen ? '/' : 'a' + (i * 5 + (size_t)field) % 26);
	line[L] = '\0';
	o += (size_t)snprintf(buf + o, bsz - o, "BEGIN:VCALENDAR%sVERSION:2.0%sBEGIN:VEVENT%sUID:longline%sDTSTART:20300101T000000Z%s", nl, nl, nl, nl, nl);
	if (field != 0) o += (size_t)snprintf(buf + o, bsz - o, "SUMMARY:/bin/true%s", nl);
	if (sp & 2) {
		for (size_t i = 0; i < (size_t)L; i += 75) {
			const size_t n = (size_t)L - i < 75 ? (size_t)L - i : 75;
			if (i) {
				if (*nbreaks < 64) breaks[(*nbreaks)++] = o;
				o += (size_t)snprintf(buf + o, bsz - o, "%s ", nl);
			}
			memcpy(buf + o, line + i, n);
			o += n;
		}
	} else {
		memcpy(buf + o, line, (size_t)L);
		o += (size_t)L;
	}
	if (*nbreaks < 64) breaks[(*nbreaks)++] = o;
	o += (size_t)snprintf(buf + o, bsz - o, "%sEND:VEVENT%sEND:VCALENDAR%s", nl, nl, nl);
	return o;
}

static echs_task_t
parse_cut(const char *text, size_t len, size_t cut)
{
	ical_parser_t pp = NULL;
	echs_task_t res = NULL;
	echs_instruc_t ins;
	static char c1[4096], c2[4096];

	/* each piece in a buffer of its own, as the callers have it */
	memcpy(c1, text, cut);
	memcpy(c2, text + cut, len - cut);
	for (int piece = 0; piece < 2; piece++) {
		const char *b = piece ? c2 : c1;
		const size_t z = piece ? len - cut : cut;
		if (z == 0 && piece == 0) continue;
		if (echs_evical_push(&pp, b, z) < 0) break;
		for (;;) {
			ins = echs_evical_pull(&pp);
			if (ins.v != INSVERB_SCHE) break;
			if (ins.t == NULL) continue;
			if (res == NULL) res = ins.t; else free_echs_task(ins.t);
		}
	}
	ins = echs_evical_last_pull(&pp);
	if (ins.v == INSVERB_SCHE && ins.t != NULL) {
		if (res == NULL) res = ins.t; else free_echs_task(ins.t);
	}
	return res;
}

static int
same(const struct attr_s *a, const struct attr_s *b)
{
	return a->have == b->have && !strcmp(a->cmd, b->cmd) && !strcmp(a->wd, b->wd) && !strcmp(a->ofile, b->ofile);
}

static void
enumerate(void)
{
	const int lo = (int)vd_opt_l("lo", 960), hi = (int)vd_opt_l("hi", 1030);
	static const char *const spn[] = {"plain-lf", "plain-crlf", "folded-lf", "folded-crlf"};
	static char text[4][4096];

	vd_count_cases = 0;
	for (int f = 0; f < 4; f++) {
		for (int L = lo; L <= hi; L++) {
			struct attr_s ref, a;
			size_t len[4], brk[4][64];
			int nbrk[4];
			char sig[128];

			if (!vd_next()) continue;
			vd_desc("%s line of %d octets (unfolded) in four spellings, whole and in two pieces", fields[f], L);
			vd_shape("longlines/%s/%s", fields[f], L <= 1023 ? "fits" : "beyond");
			for (int sp = 0; sp < 4; sp++) len[sp] = spell(text[sp], sizeof(text[sp]), f, L, sp, brk[sp], &nbrk[sp]);
			{
				echs_task_t t = parse_cut(text[0], len[0], len[0]);
				get_attr(&ref, t);
				if (t) free_echs_task(t);
			}
			vd_sh->evals++;
			/* (b) on the reference spelling */
			if (f != 3) {
				const char *val = f == 0 ? ref.cmd : f == 1 ? ref.wd : ref.ofile;
				const size_t want = L <= 1023 ? (size_t)L - strlen(fields[f]) - 1 : 0;
				if (!ref.have || strlen(val) != want) {
					snprintf(sig, sizeof(sig), "longlines/limit/%s/%s", fields[f], L <= 1023 ? "fits" : "beyond");
					vd_viol(sig, "plain LF spelling: %zu octets of the value are read, %zu expected (line of %d octets)", ref.have ? strlen(val) : 0, want, L);
				}
			}
			for (int sp = 0; sp < 4; sp++) {
				/* whole */
				echs_task_t t = parse_cut(text[sp], len[sp], len[sp]);
				get_attr(&a, t);
				if (t) free_echs_task(t);
				vd_sh->evals++;
				if (!same(&ref, &a)) {
					const char *va = f == 0 ? a.cmd : f == 1 ? a.wd : a.ofile, *vr = f == 0 ? ref.cmd : f == 1 ? ref.wd : ref.ofile;
					snprintf(sig, sizeof(sig), "longlines/spelling/%s/%s/%s", fields[f], spn[sp], L <= 1023 ? "fits" : "beyond");
					vd_viol(sig, "%s spelling reads %zu octets of the value, the plain LF spelling %zu (line of %d octets)", spn[sp], strlen(va), strlen(vr), L);
					continue;
				}
				/* (c) two pieces */
				for (int bi = 0; bi < nbrk[sp]; bi++) {
					if (bi >= 3 && bi < nbrk[sp] - 2) continue;
					for (int dz = -2; dz <= 3; dz++) {
						const long cut = (long)brk[sp][bi] + dz;
						if (cut <= 0 || (size_t)cut >= len[sp]) continue;
						t = parse_cut(text[sp], len[sp], (size_t)cut);
						get_attr(&a, t);
						if (t) free_echs_task(t);
						vd_sh->evals++;
						if (!same(&ref, &a)) {
							const char *va = f == 0 ? a.cmd : f == 1 ? a.wd : a.ofile, *vr = f == 0 ? ref.cmd : f == 1 ? ref.wd : ref.ofile;
							snprintf(sig, sizeof(sig), "longlines/pieces/%s/%s/%s", fields[f], spn[sp], dz == 0 ? "cut-before-break" : dz == (sp & 1 ? 2 : 1) ? "cut-behind-break" : "cut-near-break");
							vd_viol(sig, "%s spelling cut %+d octets from break %d of %d reads %zu octets of the value (task %s), in one piece %zu", spn[sp], dz, bi + 1, nbrk[sp],
								strlen(va), a.have ? "present" : "missing", strlen(vr));
							bi = nbrk[sp];
							break;
						}
					}
				}
			}
			vd_nontrivial();
			if (vd_want_sample()) vd_sample("%s line of %d octets: 4 spellings agree, whole and in pieces", fields[f], L);
		}
	}
}

int
main(int argc, char *argv[])
{
	return vd_main(argc, argv, enumerate);
}
