/* C05 -- what the serialiser remembers about a descriptor must not outlive the document.
 *
 * echs_icalify_init / echs_task_icalify / echs_icalify_fini write through a per-descriptor buffer and keep a
 * per-descriptor "output was lost" note which fini reports (echsd decides with it whether a checkpoint file may
 * replace the live one).  Every sequence of up to `depth' documents over the alphabet
 *     G  a calendar written to a regular file
 *     F  a calendar written to /dev/full (every write fails with ENOSPC)
 *     B  a calendar of one task with ~5 KiB of text to a regular file (crosses the 4 KiB buffer)
 * is run with all documents on the SAME descriptor number (dup2), then again alternating between two numbers.
 * Oracle: fini reports success exactly for G and B and failure for F, whatever came before; what a successful
 * document left in the file reads back (real parser) to the same UID, command and first occurrences.
 */
#include "vdrv.h"
#include <fcntl.h>
#include "ref/icalio.h"
#include "ref/c05_common.h"

#define FDA	200
#define FDB	201

static const char small_ev[] =
	"BEGIN:VCALENDAR\nVERSION:2.0\nBEGIN:VEVENT\nUID:fdstate-small\nSUMMARY:/bin/echo small\nDTSTART:20300101T000000Z\n"
	"RRULE:FREQ=DAILY;COUNT=20\nEND:VEVENT\nEND:VCALENDAR\n";

static echs_task_t
big_task(void)
{
	static char text[8192];
	static char pad[901];
	if (!pad[0]) memset(pad, 'x', 900);
	snprintf(text, sizeof(text), "BEGIN:VCALENDAR\nVERSION:2.0\nBEGIN:VEVENT\nUID:fdstate-big\nSUMMARY:/bin/echo %s\nX-ECHS-IFILE:/i%s\nX-ECHS-OFILE:/o%s\n"
		 "X-ECHS-EFILE:/e%s\nDESCRIPTION:%s\nLOCATION:/l%s\nDTSTART:20300101T000000Z\nRRULE:FREQ=DAILY;COUNT=20\nEND:VEVENT\nEND:VCALENDAR\n", pad, pad, pad, pad, pad, pad);
	return ical_task1(text);
}

static int
one_doc(char kind, int fdno, char *why, size_t wz)
{
	char tmpl[] = "/tmp/c05fdXXXXXX";
	int fd = kind == 'F' ? open("/dev/full", O_WRONLY) : mkstemp(tmpl);
	echs_task_t t = kind == 'B' ? big_task() : ical_task1(small_ev);
	int rc, ok = 1;

	why[0] = '\0';
	if (fd < 0 || t == NULL) {
		snprintf(why, wz, "harness: cannot open target or parse the task");
		if (t) free_echs_task(t);
		return -1;
	}
	if (kind != 'F') unlink(tmpl);
	if (dup2(fd, fdno) < 0) {
		snprintf(why, wz, "harness: dup2");
		return -1;
	}
	close(fd);
	echs_icalify_init(fdno, (echs_instruc_t){INSVERB_SCHE});
	echs_task_icalify(fdno, t);
	rc = echs_icalify_fini(fdno);
	if (kind == 'F') {
		if (rc >= 0) {
			snprintf(why, wz, "a document written to /dev/full is reported as written (fini returns %d)", rc);
			ok = 0;
		}
	} else {
		static char back[16384];
		ssize_t n = pread(fdno, back, sizeof(back) - 1, 0);
		if (rc < 0) {
			snprintf(why, wz, "a document written to a regular file is reported as lost (fini returns %d), %zd bytes are in the file", rc, n);
			ok = 0;
		} else if (n <= 0) {
			snprintf(why, wz, "fini reports success but the file holds %zd bytes", n);
			ok = 0;
		} else {
			echs_task_t t2;
			back[n] = '\0';
			t2 = ical_task1(back);
			if (t2 == NULL || t2->oid != t->oid || t2->cmd == NULL || strcmp(t2->cmd, t->cmd)) {
				snprintf(why, wz, "what was written does not read back to the same task (%zd bytes)", n);
				ok = 0;
			} else {
				struct c05_occ a[8], b[8];
				int ma, mb;
				const int na = c05_drain(t->strm, a, 8, &ma), nb = c05_drain(t2->strm, b, 8, &mb);
				if (na != nb || memcmp(a, b, sizeof(a[0]) * (size_t)na)) {
					snprintf(why, wz, "what was written reads back to other occurrences (%d vs %d)", nb, na);
					ok = 0;
				}
			}
			if (t2) free_echs_task(t2);
		}
	}
	free_echs_task(t);
	close(fdno);
	return ok;
}

static void
enumerate(void)
{
	const int depth = (int)vd_opt_l("depth", 4);
	static const char alpha[] = "GFB";

	vd_count_cases = 0;
	for (int len = 1; len <= depth; len++) {
		long nseq = 1;
		for (int i = 0; i < len; i++) nseq *= 3;
		for (long sq = 0; sq < nseq; sq++) {
			for (int twofd = 0; twofd < 2; twofd++) {
				char seq[16], why[256];
				long x = sq;
				int hasF = 0;
				if (!vd_next()) continue;
				for (int i = 0; i < len; i++, x /= 3) seq[i] = alpha[x % 3], hasF |= seq[i] == 'F';
				seq[len] = '\0';
				vd_sh->evals++;
				vd_desc("documents %s (G regular file, F /dev/full, B 5 KiB task to a regular file) on %s", seq, twofd ? "descriptors 200 and 201 alternately" : "descriptor 200");
				vd_shape("fdstate/%s/%s", hasF ? "with-failure" : "no-failure", twofd ? "two-fds" : "one-fd");
				if (hasF && len > 1) vd_nontrivial();
				for (int i = 0; i < len; i++) {
					int r = one_doc(seq[i], twofd && (i & 1) ? FDB : FDA, why, sizeof(why));
					if (r < 0) {
						vd_viol("harness/fdstate", "%s", why);
						break;
					} else if (!r) {
						char sig[96];
						int failed_before = 0;
						for (int j = 0; j < i; j++) failed_before |= seq[j] == 'F';
						snprintf(sig, sizeof(sig), "fdstate/%s/%s", seq[i] == 'F' ? "loss-not-reported" : "good-reported-lost", failed_before ? "after-a-failure" : "no-failure-before");
						vd_viol(sig, "document %d (%c) of %s: %s", i + 1, seq[i], seq, why);
						break;
					}
				}
				if (vd_want_sample() && hasF) vd_sample("sequence %s on %s", seq, twofd ? "two descriptors" : "one descriptor");
			}
		}
	}
}

int
main(int argc, char *argv[])
{
	return vd_main(argc, argv, enumerate);
}
