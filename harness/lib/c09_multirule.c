/* C09 -- events with several recurrence and exception sources: asked to the end, asked again, given up early,
 * cloned; nothing outside the stream's own memory is touched and the exhausted set answers end-of-stream.
 *
 * An event may carry several RRULE lines, RDATE lists, several EXRULE lines and EXDATE lists at once.  The
 * parser then builds the stream from copies of the rule streams (clone), merges them with the date lists and
 * puts the exception stream in front as a filter; when a merged stream runs dry it releases its constituents
 * on the spot, i.e. INSIDE the request that is answered with end-of-stream, and when a task is cancelled or
 * replaced they are released by free_echs_task().  c09_hostile.c asks one rule in three embeddings and never
 * combines two rules with a date list, finite rules with a date list, or anything with exceptions sources in
 * the plural.  This driver does:
 *
 *   event   DTSTART:20240301T100000Z (a Friday)
 *           x ordered selections of 0..NR rules of a menu of finite rules (all synchronised with DTSTART)
 *           x RDATE variants {none, one line/1 date, one line/3 dates unsorted, two lines}
 *           x ordered selections of 0..NX exception rules of a menu of finite rules
 *           x EXDATE variants {none, one date, two lines}           (at least one RRULE or an RDATE)
 *   script  drain     pop to end-of-stream, then peek and pop twice more, release the task
 *           free@k    pop k in {0,1,2,5} occurrences, release the task (what cancelling a task does)
 *           clone@k   pop k in {0,2}, clone the stream, then  cf: drain the clone, release it, drain the
 *                     original, release;  of: drain and release the original first, then the clone;
 *                     un: release both undrained
 *   every script on a freshly parsed event (text through the real parser).
 *
 * One case = one event with all its scripts.
 *
 * clauses
 *   crash/<shape>      worker died: sanitizer report (variant asan) or fault; filed under the event's shape
 *                      (numbers of RRULEs and EXRULEs as 0, 1, 2+; RDATE / EXDATE present or not), the script is
 *                      named in the case description
 *   heap-damage/...    (plain variant) every block the library obtains during a script is carved out of a
 *                      private arena between guard zones of GUARD bytes and stays where it is, poisoned, once
 *                      released; after the script a guard zone or a released block that has changed means a
 *                      write outside the library's own live memory; a block released twice, or a release of
 *                      an arena address that was never handed out, likewise
 *   no-end/...         all sources are finite but the stream has not answered end-of-stream after the number
 *                      of occurrences of all sources together
 *   revived/...        an occurrence after end-of-stream had been answered
 *   set-differs/...    the occurrences are not (union of what each RRULE gives alone, plus the RDATEs) minus
 *                      (what each EXRULE gives alone as an RRULE, plus the EXDATEs), strictly increasing; the
 *                      constituent sets are read from single-source events through the same library
 *   clone-differs/...  a clone taken after k occurrences does not deliver what the original delivers from there
 *
 * options: rmenu= (rules of the menu used, <= 6) xmenu= (<= 4) nr= nx= (longest selections, <= 3)
 */
#include "vdrv.h"
#include "ref/icalio.h"
#include "ref/rfc5545.h"
#include "evstrm.h"

#define MAXOCC	400
#define DTSTART	"DTSTART:20240301T100000Z"

static const char *const rmenu[] = {
	"FREQ=YEARLY;BYMONTH=3;BYMONTHDAY=1;COUNT=3",
	"FREQ=WEEKLY;BYDAY=FR;UNTIL=20240322T100000Z",
	"FREQ=DAILY;INTERVAL=3;COUNT=70",	/* more than one refill of the 64-slot cache */
	"FREQ=DAILY;COUNT=1",			/* exhausted with DTSTART */
	"FREQ=MONTHLY;BYMONTHDAY=1;COUNT=4",
	"FREQ=HOURLY;INTERVAL=5;COUNT=4",
};
static const char *const xmenu[] = {
	"FREQ=YEARLY;BYMONTH=3;BYMONTHDAY=1;COUNT=2",
	"FREQ=DAILY;INTERVAL=6;COUNT=5",
	"FREQ=WEEKLY;BYDAY=FR;COUNT=2",
	"FREQ=MONTHLY;BYMONTHDAY=1;INTERVAL=2;COUNT=2",
};
#define NRMENU	((int)(sizeof(rmenu) / sizeof(*rmenu)))
#define NXMENU	((int)(sizeof(xmenu) / sizeof(*xmenu)))

/* date lists: lines of UTC instants; a zero year ends a line, two end the list */
#define T(y, m, d, H, M)	{y, m, d, H, M, 0, 0}
#define EOL	{0, 0, 0, 0, 0, 0, 0}
static const rf_dt rdv0[] = {EOL};
static const rf_dt rdv1[] = {T(2024, 6, 15, 10, 0), EOL, EOL};
/* unsorted; the second is the second occurrence of DAILY;INTERVAL=3 */
static const rf_dt rdv2[] = {T(2025, 1, 1, 12, 0), T(2024, 3, 4, 10, 0), T(2024, 3, 10, 8, 0), EOL, EOL};
/* two lines; the last lies behind everything else */
static const rf_dt rdv3[] = {T(2024, 6, 15, 10, 0), EOL, T(2024, 3, 2, 10, 0), T(2027, 1, 1, 0, 0), EOL, EOL};
static const rf_dt *const rdv[] = {rdv0, rdv1, rdv2, rdv3};
static const rf_dt xdv1[] = {T(2024, 6, 15, 10, 0), EOL, EOL};
static const rf_dt xdv2[] = {T(2024, 3, 4, 10, 0), T(2025, 3, 1, 10, 0), EOL, T(2030, 1, 1, 0, 0), EOL, EOL};
static const rf_dt *const xdv[] = {rdv0, xdv1, xdv2};
#define NRDV	4
#define NXDV	3

/* ------------------------------------------------------------------ */
/* the guarded heap of the plain variant: malloc & co. of this program, i.e. of the library under test, are
 * replaced; while a script runs every block is recorded, framed by guard zones and never reused */
#if defined __SANITIZE_ADDRESS__
# define GUARDED	0
#else
# define GUARDED	1
#endif

#if GUARDED
extern void *__libc_malloc(size_t);
extern void __libc_free(void*);
extern void *__libc_realloc(void*, size_t);
extern void *__libc_calloc(size_t, size_t);

/* Blocks are carved one after the other out of a private arena, a guard zone in front of the first and behind
 * each:  G | block 1 | G | block 2 | G ...; released blocks are filled with a pattern and stay where they are,
 * nothing is handed out twice within a script. */
#define GUARD	5120U	/* > 3 x the size of a rule stream (1632) */
#define ARENA	(256UL << 20)
#define NBLK	32768U
#define GPAT	0x5a
#define FPAT	0xa5
static struct blk_s {
	uint8_t *p;
	size_t z;	/* as asked for */
	size_t zr;	/* rounded to 16 */
	int freed;
} blk[NBLK];
static size_t nblk;
static uint8_t *ar;
static size_t ar_used;
static volatile int g_on;
static int g_bad;
static long g_late;
static char g_what[200];

static void
g_note(const char *fmt, size_t a, size_t b)
{
	if (!g_bad++) {
		snprintf(g_what, sizeof(g_what), fmt, a, b);
	}
}

static inline int
g_mine(const void *p)
{
	return ar != NULL && (const uint8_t*)p >= ar && (const uint8_t*)p < ar + ARENA;
}

/* the block that starts at P, or the one whose frame P lies in (*EXACT cleared) */
static struct blk_s*
g_find(const void *p, int *exact)
{
	size_t lo = 0U, hi = nblk;

	*exact = 0;
	while (lo < hi) {
		const size_t mid = (lo + hi) / 2U;
		if (blk[mid].p <= (const uint8_t*)p) {
			lo = mid + 1U;
		} else {
			hi = mid;
		}
	}
	if (!lo) {
		return NULL;
	}
	*exact = blk[lo - 1U].p == (const uint8_t*)p;
	return blk + (lo - 1U);
}

static void*
g_malloc(size_t z)
{
	const size_t zr = (z + 15U) & ~(size_t)15U;
	uint8_t *p;

	if (nblk >= NBLK || ar_used + zr + GUARD > ARENA) {
		fprintf(stderr, "c09_multirule: guarded arena exhausted\n");
		_exit(2);
	}
	p = ar + ar_used;
	memset(p + z, GPAT, zr - z + GUARD);
	ar_used += zr + GUARD;
	blk[nblk++] = (struct blk_s){p, z, zr, 0};
	return p;
}

void*
malloc(size_t z)
{
	return g_on ? g_malloc(z) : __libc_malloc(z);
}

void*
calloc(size_t n, size_t m)
{
	void *p;

	if (!g_on) {
		return __libc_calloc(n, m);
	}
	p = g_malloc(n * m);
	memset(p, 0, n * m);
	return p;
}

void
free(void *p)
{
	struct blk_s *b;
	int exact;

	if (p == NULL) {
		return;
	} else if (!g_mine(p)) {
		__libc_free(p);
		return;
	} else if (!g_on) {
		/* a release of something handed out during a script that is over */
		g_late++;
		return;
	} else if ((b = g_find(p, &exact)) == NULL || !exact) {
		g_note("release of an address that was never handed out, %zu bytes from the start of a block of %zu bytes",
		       b ? (size_t)((uint8_t*)p - b->p) : (size_t)0, b ? b->z : (size_t)0);
		return;
	} else if (b->freed) {
		g_note("block of %zu bytes released twice%.0zu", b->z, (size_t)0);
		return;
	}
	memset(p, FPAT, b->z);
	b->freed = 1;
	return;
}

void*
realloc(void *p, size_t z)
{
	struct blk_s *b;
	int exact;
	void *q;

	if (p == NULL) {
		return malloc(z);
	} else if (!g_mine(p)) {
		/* older than the script: stays with the C library */
		return __libc_realloc(p, z);
	} else if (!g_on) {
		g_late++;
		return NULL;
	} else if ((b = g_find(p, &exact)) == NULL || !exact || b->freed) {
		g_note("realloc of an address that is not a live block%.0zu%.0zu", (size_t)0, (size_t)0);
		return NULL;
	}
	q = g_malloc(z);
	memcpy(q, p, b->z < z ? b->z : z);
	free(p);
	return q;
}

static void
g_begin(void)
{
	if (ar == NULL) {
		ar = mmap(NULL, ARENA, PROT_READ | PROT_WRITE, MAP_PRIVATE | MAP_ANONYMOUS | MAP_NORESERVE, -1, 0);
		if (ar == MAP_FAILED) {
			perror("c09_multirule: mmap");
			_exit(2);
		}
	}
	memset(ar, GPAT, GUARD);
	ar_used = GUARD;
	nblk = 0U;
	g_bad = 0;
	g_what[0] = '\0';
	g_on = 1;
}

/* audit; the number of damaged places */
static int
g_end(void)
{
	g_on = 0;
	for (size_t j = 0U; j < GUARD; j++) {
		if (ar[j] != GPAT) {
			g_note("write %zu bytes in front of the first block (%zu bytes)", GUARD - j, nblk ? blk[0].z : (size_t)0);
			break;
		}
	}
	for (size_t i = 0U; i < nblk; i++) {
		const uint8_t *u = blk[i].p;
		const size_t tail = blk[i].zr - blk[i].z + GUARD;

		for (size_t j = 0U; j < tail; j++) {
			if (u[blk[i].z + j] != GPAT) {
				if (i + 1U < nblk && tail - j <= j) {
					g_note("write %zu bytes in front of a block of %zu bytes", tail - j, blk[i + 1U].z);
				} else {
					g_note("write %zu bytes behind the end of a block of %zu bytes", j, blk[i].z);
				}
				break;
			}
		}
		for (size_t j = 0U; blk[i].freed && j < blk[i].z; j++) {
			if (u[j] != FPAT) {
				g_note("write at offset %zu of a released block of %zu bytes", j, blk[i].z);
				break;
			}
		}
	}
	/* what the library has not released it must not come back to either: make that visible */
	memset(ar, 0xee, ar_used);
	nblk = 0U;
	return g_bad;
}
#else  /* !GUARDED */
static void g_begin(void) {}
static int g_end(void) { return 0; }
static const char g_what[] = "";
static long g_late;
#endif	/* GUARDED */

/* ------------------------------------------------------------------ */
struct occ_s {
	int n;
	int ended;
	int revived;
	int64_t t[MAXOCC + 8];
};

static int64_t
inst_secs(echs_instant_t i)
{
	const int ad = echs_instant_all_day_p(i);
	rf_dt d = {(int)i.y, (int)i.m, (int)i.d, ad ? 0 : (int)i.H, ad ? 0 : (int)i.M, ad ? 0 : (int)i.S, 0};
	return rf_secs(d);
}

/* pop at most MAX occurrences into O (appending) */
static void
drain(echs_evstrm_t s, struct occ_s *o, int max)
{
	while (o->n < MAXOCC && max-- > 0) {
		echs_event_t e = echs_evstrm_pop(s);
		if (echs_nul_event_p(e)) {
			o->ended = 1;
			return;
		}
		o->t[o->n++] = inst_secs(e.from);
	}
}

/* the end must stay the end */
static void
ask_again(echs_evstrm_t s, struct occ_s *o)
{
	for (int i = 0; o->ended && i < 2; i++) {
		echs_event_t e1 = echs_evstrm_next(s);
		echs_event_t e2 = echs_evstrm_pop(s);
		if (!echs_nul_event_p(e1) || !echs_nul_event_p(e2)) {
			o->revived = 1 + i;
		}
	}
}

static int
cmp64(const void *a, const void *b)
{
	const int64_t x = *(const int64_t*)a, y = *(const int64_t*)b;
	return (x > y) - (x < y);
}

static int
sort_uniq(int64_t *t, int n)
{
	int j = 0;
	if (!n) return 0;
	qsort(t, (size_t)n, sizeof(*t), cmp64);
	for (int i = 1; i < n; i++) {
		if (t[i] != t[j]) t[++j] = t[i];
	}
	return j + 1;
}

static size_t
datelines(char *buf, size_t bsz, const char *prop, const rf_dt *v, int64_t *out, int *nout)
{
	size_t o = 0;

	buf[0] = '\0';
	for (int first = 1; v->y || !first; v++) {
		if (!v->y) {
			o += (size_t)snprintf(buf + o, bsz - o, "\n");
			first = 1;
			if (!v[1].y) break;
			continue;
		}
		o += (size_t)snprintf(buf + o, bsz - o, "%s%04d%02d%02dT%02d%02d%02dZ", first ? prop : ",", v->y, v->m, v->d, v->H, v->M, v->S);
		first = 0;
		out[(*nout)++] = rf_secs(*v);
	}
	return o;
}

/* what one rule gives alone, read once per worker */
static struct {
	int n;
	int64_t t[128];
} alone[2][6];
static int64_t ts0;

static void
read_alone(void)
{
	static struct occ_s o;

	for (int k = 0; k < 2; k++) {
		for (int i = 0; i < (k ? NXMENU : NRMENU); i++) {
			char body[256], text[1024];
			echs_task_t t;

			snprintf(body, sizeof(body), DTSTART "\nRRULE:%s\n", k ? xmenu[i] : rmenu[i]);
			ical_wrap(text, sizeof(text), "mr@verif", body);
			memset(&o, 0, sizeof(o));
			if ((t = ical_task1(text)) == NULL || t->strm == NULL) {
				fprintf(stderr, "c09_multirule: menu rule not accepted: %s\n", body);
				exit(2);
			}
			drain(t->strm, &o, 127);
			if (!o.ended || !o.n) {
				fprintf(stderr, "c09_multirule: menu rule is not finite: %s\n", body);
				exit(2);
			}
			alone[k][i].n = o.n;
			memcpy(alone[k][i].t, o.t, sizeof(*o.t) * (size_t)o.n);
			free_echs_task(t);
		}
	}
	{
		rf_dt d0 = T(2024, 3, 1, 10, 0);
		ts0 = rf_secs(d0);
	}
}

/* ------------------------------------------------------------------ */
struct ev_s {
	int nr, r[3];
	int nx, x[3];
	int rd, xd;
	char body[1600];
	char text[2048];
	char shape[96];
	int nref;
	int64_t ref[MAXOCC];
	int bound;	/* occurrences of all sources together */
};

static echs_task_t
parse(const struct ev_s *ev)
{
	return ical_task1(ev->text);
}

static void
viol(const char *clause, const struct ev_s *ev, const char *op, const char *fmt, ...)
{
	char sig[200], detail[600];
	va_list ap;

	va_start(ap, fmt);
	vsnprintf(detail, sizeof(detail), fmt, ap);
	va_end(ap);
	snprintf(sig, sizeof(sig), "%s/%s/%s", clause, ev->shape, op);
	vd_viol(sig, "script %s: %s", op, detail);
}

static const char*
secs_str(char *buf, size_t bsz, int64_t s)
{
	rf_dt t = rf_from_secs(s, 0);
	snprintf(buf, bsz, "%04d-%02d-%02dT%02d:%02d:%02dZ", t.y, t.m, t.d, t.H, t.M, t.S);
	return buf;
}

/* O against the reference from its K-th member on */
static void
compare(const struct ev_s *ev, const char *clause, const char *opc, const char *op, const struct occ_s *o, int k)
{
	int64_t got[MAXOCC + 8];
	const int64_t *ref = ev->ref;
	int nref = ev->nref, n = o->n;
	char b1[32], b2[32];

	memcpy(got, o->t, sizeof(*got) * (size_t)n);
	(void)op;
	if (!o->ended) {
		viol("no-end", ev, opc, "%d occurrences and no end-of-stream, all sources together have %d", o->n, ev->bound);
		return;
	}
	if (o->revived) {
		viol("revived", ev, opc, "after %d occurrences end-of-stream was answered, asked again (%d) there is an occurrence", o->n, o->revived);
	}
	if (k < 0) {
		return;
	}
	for (int i = 1; i < n; i++) {
		if (got[i] <= got[i - 1]) {
			viol(clause, ev, opc, "occurrence %d (%s) is not later than occurrence %d (%s)", i + 1, secs_str(b1, sizeof(b1), got[i]), i, secs_str(b2, sizeof(b2), got[i - 1]));
			return;
		}
	}
	if (!ev->nr) {
		/* without an RRULE whether DTSTART itself belongs to the set is left open */
		int j = 0;
		for (int i = 0; i < n; i++) {
			if (got[i] != ts0) got[j++] = got[i];
		}
		n = j;
	}
	if (k > nref) k = nref;
	ref += k, nref -= k;
	for (int i = 0; i < n || i < nref; i++) {
		if (i >= n) {
			viol(clause, ev, opc, "%d occurrences, expected %d: %s is missing", n, nref, secs_str(b1, sizeof(b1), ref[i]));
			return;
		} else if (i >= nref) {
			viol(clause, ev, opc, "%d occurrences, expected %d: %s is not in the set", n, nref, secs_str(b1, sizeof(b1), got[i]));
			return;
		} else if (got[i] != ref[i]) {
			viol(clause, ev, opc, "occurrence %d is %s, expected %s", i + 1 + k, secs_str(b1, sizeof(b1), got[i]), secs_str(b2, sizeof(b2), ref[i]));
			return;
		}
	}
}

static void
heap_verdict(const struct ev_s *ev, const char *opc, const char *op)
{
	if (g_end()) {
		viol("heap-damage", ev, opc, "%s: %s", op, g_what);
	}
	if (g_late) {
		/* would mean the scripts do not bracket the life of what they parse */
		vd_count("releases_after_the_script", g_late);
		g_late = 0;
	}
	vd_sh->evals++;
	vd_beat();
}

/* a crash is reported under the event's shape, the script is named in the case description */
static void
now_running(const struct ev_s *ev, const char *op)
{
	char *p;

	vd_desc("%s[script %s]", ev->body, op);
	for (p = vd_sh->desc; *p; p++) if (*p == '\n') *p = '|';
}

/* On a tree where events of one shape keep killing the worker every further event of that shape costs a
 * sanitizer report and a new worker: after CRASHCAP deaths under one signature (in this shard) the remaining
 * events of the shape are left out and counted.  Never happens on a tree without such a report. */
#define CRASHCAP	3
static int
crashed_often(const struct ev_s *ev)
{
	char sig[VD_SIGLEN];

	snprintf(sig, sizeof(sig), "crash/%s", ev->shape);
	for (int i = 0; i < VD_NSIG && vd_sh->sig[i].sig[0]; i++) {
		if (!strcmp(vd_sh->sig[i].sig, sig)) {
			return vd_sh->sig[i].n >= CRASHCAP;
		}
	}
	return 0;
}

static void
event_case(struct ev_s *ev)
{
	static struct occ_s o, oc;
	static const int freeat[] = {0, 1, 2, 5};
	static const int cloneat[] = {0, 2};
	static const char *const how[] = {"cf", "of", "un"};
	echs_task_t t;
	char op[32];

	/* drain */
	now_running(ev, "drain");
	memset(&o, 0, sizeof(o));
	g_begin();
	if ((t = parse(ev)) == NULL || t->strm == NULL) {
		g_end();
		vd_count("not_accepted", 1);
		return;
	}
	drain(t->strm, &o, ev->bound + 1);
	ask_again(t->strm, &o);
	free_echs_task(t);
	heap_verdict(ev, "drain", "drain");
	compare(ev, "set-differs", "drain", "drain", &o, 0);
	if (o.n >= 2) {
		vd_nontrivial();
	}
	vd_count("occurrences_asked", o.n);
	if (vd_want_sample()) {
		char *p;
		static char tx[2048];
		snprintf(tx, sizeof(tx), "%s", ev->body);
		for (p = tx; *p; p++) if (*p == '\n') *p = '|';
		vd_sample("%s -> %d occurrences then end-of-stream; freed at 0/1/2/5, cloned at 0/2", tx, o.n);
	}

	/* given up early */
	for (size_t i = 0; i < sizeof(freeat) / sizeof(*freeat); i++) {
		snprintf(op, sizeof(op), "free@%d", freeat[i]);
		now_running(ev, op);
		memset(&o, 0, sizeof(o));
		g_begin();
		if ((t = parse(ev)) == NULL || t->strm == NULL) {
			g_end();
			return;
		}
		drain(t->strm, &o, freeat[i]);
		free_echs_task(t);
		heap_verdict(ev, "free-early", op);
	}

	/* cloned */
	for (size_t i = 0; i < sizeof(cloneat) / sizeof(*cloneat); i++) {
		for (int h = 0; h < 3; h++) {
			echs_evstrm_t c;
			const int k = cloneat[i];

			snprintf(op, sizeof(op), "clone@%d/%s", k, how[h]);
			now_running(ev, op);
			memset(&o, 0, sizeof(o));
			memset(&oc, 0, sizeof(oc));
			g_begin();
			if ((t = parse(ev)) == NULL || t->strm == NULL) {
				g_end();
				return;
			}
			drain(t->strm, &o, k);
			if (o.n < k) {
				/* nothing left to tell apart */
				free_echs_task(t);
				g_end();
				continue;
			}
			o.n = 0;
			if ((c = clone_echs_evstrm(t->strm)) == NULL) {
				free_echs_task(t);
				g_end();
				vd_count("clone_refused", 1);
				continue;
			}
			switch (h) {
			case 0:
				drain(c, &oc, ev->bound + 1);
				ask_again(c, &oc);
				free_echs_evstrm(c);
				drain(t->strm, &o, ev->bound + 1);
				ask_again(t->strm, &o);
				free_echs_task(t);
				break;
			case 1:
				drain(t->strm, &o, ev->bound + 1);
				ask_again(t->strm, &o);
				free_echs_task(t);
				drain(c, &oc, ev->bound + 1);
				ask_again(c, &oc);
				free_echs_evstrm(c);
				break;
			default:
				free_echs_task(t);
				free_echs_evstrm(c);
				break;
			}
			heap_verdict(ev, "clone", op);
			if (h < 2) {
				compare(ev, "set-differs", "clone", op, &o, ev->nr ? k : -1);
				compare(ev, "clone-differs", "clone", op, &oc, -1);
				if (o.ended && oc.ended && (o.n != oc.n || memcmp(o.t, oc.t, sizeof(*o.t) * (size_t)o.n))) {
					viol("clone-differs", ev, "clone", "%s: the original delivers %d occurrences after the clone was taken, the clone %d, or others", op, o.n, oc.n);
				}
			}
		}
	}
}

/* ordered selections of 0..MAXN out of MENU without repetition, shorter ones first */
static int
nth_selection(int *sel, int idx, int menu, int maxn)
{
	for (int n = 0; n <= maxn; n++) {
		int cnt = 1;
		for (int i = 0; i < n; i++) cnt *= menu - i;
		if (n > menu) return -1;
		if (idx < cnt) {
			int used = 0;
			for (int i = 0; i < n; i++) {
				int rest = 1, q, j;
				for (int m = i + 1; m < n; m++) rest *= menu - m;
				q = idx / rest, idx %= rest;
				for (j = 0; j < menu; j++) {
					if (used & (1 << j)) continue;
					if (!q--) break;
				}
				sel[i] = j;
				used |= 1 << j;
			}
			return n;
		}
		idx -= cnt;
	}
	return -1;
}

static void
enumerate(void)
{
	int nrm = (int)vd_opt_l("rmenu", 4), nxm = (int)vd_opt_l("xmenu", 3);
	int maxr = (int)vd_opt_l("nr", 3), maxx = (int)vd_opt_l("nx", 3);
	static struct ev_s ev;

	if (nrm > NRMENU) nrm = NRMENU;
	if (nxm > NXMENU) nxm = NXMENU;
	if (maxr > 3) maxr = 3;
	if (maxx > 3) maxx = 3;
	vd_count_cases = 0;
	read_alone();

	for (int ri = 0; (ev.nr = nth_selection(ev.r, ri, nrm, maxr)) >= 0; ri++) {
		for (int xi = 0; (ev.nx = nth_selection(ev.x, xi, nxm, maxx)) >= 0; xi++) {
			for (ev.rd = 0; ev.rd < NRDV; ev.rd++) {
				for (ev.xd = 0; ev.xd < NXDV; ev.xd++) {
					static int64_t inc[MAXOCC + 64], exc[MAXOCC];
					char *const body = ev.body;
					size_t o;
					int ninc = 0, nexc = 0;

					if (!ev.nr && !ev.rd) {
						continue;
					}
					if (vd_stop()) {
						return;
					}
					if (!vd_next()) {
						continue;
					}
					o = (size_t)snprintf(body, sizeof(ev.body), DTSTART "\n");
					for (int i = 0; i < ev.nr; i++) {
						o += (size_t)snprintf(body + o, sizeof(ev.body) - o, "RRULE:%s\n", rmenu[ev.r[i]]);
						memcpy(inc + ninc, alone[0][ev.r[i]].t, sizeof(*inc) * (size_t)alone[0][ev.r[i]].n);
						ninc += alone[0][ev.r[i]].n;
					}
					o += datelines(body + o, sizeof(ev.body) - o, "RDATE:", rdv[ev.rd], inc, &ninc);
					for (int i = 0; i < ev.nx; i++) {
						o += (size_t)snprintf(body + o, sizeof(ev.body) - o, "EXRULE:%s\n", xmenu[ev.x[i]]);
						memcpy(exc + nexc, alone[1][ev.x[i]].t, sizeof(*exc) * (size_t)alone[1][ev.x[i]].n);
						nexc += alone[1][ev.x[i]].n;
					}
					o += datelines(body + o, sizeof(ev.body) - o, "EXDATE:", xdv[ev.xd], exc, &nexc);
					ical_wrap(ev.text, sizeof(ev.text), "mr@verif", body);
					ev.bound = ninc + 1;
					ninc = sort_uniq(inc, ninc);
					ev.nref = 0;
					for (int i = 0; i < ninc; i++) {
						int out = 0;
						for (int j = 0; j < nexc && !out; j++) out = exc[j] == inc[i];
						if (!out && (ev.nr || inc[i] != ts0)) ev.ref[ev.nref++] = inc[i];
					}
					snprintf(ev.shape, sizeof(ev.shape), "rrules=%s/rdate=%s/exrules=%s/exdate=%s",
						 ev.nr >= 2 ? "2+" : ev.nr ? "1" : "0", ev.rd ? "y" : "n",
						 ev.nx >= 2 ? "2+" : ev.nx ? "1" : "0", ev.xd ? "y" : "n");
					vd_shape("%s", ev.shape);
					now_running(&ev, "-");
					if (vd_only < 0 && crashed_often(&ev)) {
						vd_count("left_out_after_repeated_crashes", 1);
						continue;
					}
					event_case(&ev);
				}
			}
		}
	}
}

int
main(int argc, char *argv[])
{
	return vd_main(argc, argv, enumerate);
}
