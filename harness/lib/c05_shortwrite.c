/* C05 -- the serialiser on a descriptor that takes its buffer in pieces.
 *
 * echs_icalify_init / echs_task_icalify / echs_icalify_fini write through the 4 KiB buffer of fdprnt.h, which
 * hands its content to write(2) and has to go on behind what was taken when write(2) takes less than it was
 * given (sockets, pipes with a slow reader, a signal in mid-transfer).  echsq submits over a socket and echsd
 * answers over one, and echsd decides with the verdict of echs_icalify_fini() whether a checkpoint file
 * replaces the live one: so what arrives must be the document, or the loss must be reported.
 *
 * write() of this program -- hence of the library, which is linked statically -- is defined here.  Calls on the
 * target descriptor number are collected in memory and counted; a script of one or two deviations says what
 * the n-th call does instead of taking everything:
 *     short(k)   takes the first k octets only (k < the count asked for)
 *     eintr      answers -1 / EINTR, takes nothing
 *     enospc     answers -1 / ENOSPC, takes nothing
 *     zero       answers 0, takes nothing
 * Documents: four sets of tasks (one small task; one of ~1 KB; one of ~5 KB with lines of 1000+ octets, more
 * than the buffer holds; two tasks, ~9.5 KB together) x both written forms (echsq form, echsd checkpoint form
 * with the calendar-level owner line).  The field values are path-like and nowhere periodic, so that octets
 * sent from the wrong place cannot coincide with the right ones.
 *
 * For every document: the undisturbed run gives the reference text, the number W of write calls and what each
 * asks for.  Then
 *     singles   every call n = 1..W x every action (short(k) for k in {1, 2, half, len-1} and every step-th k,
 *               ks=all: EVERY k = 1..len-1; eintr; enospc; zero)
 *     pairs     every single with k from the menu {1, 2, half, len-1} (and the three refusals) x every LATER call
 *               n2 of the run so disturbed (the continuation calls included) x every action with k from the menu;
 *               pstep=P: in both places also every P-th k
 * Oracle (nothing else is demanded):
 *     what arrived on the descriptor is octet for octet the reference text, OR echs_icalify_fini() returns < 0.
 *
 * clauses
 *   shortwrite/<scrambled|truncated|longer>/doc=<set>/<form>/<actions>   the document that arrived differs
 *        (same length / shorter / longer than the reference) and fini reported success
 *   harness/...    the reference run itself is not usable (never on a tree whose plain round trip works)
 *   crash/, hang/  from the supervisor (a writer that sends from outside its buffer trips ASan in that variant)
 *
 * options: ks=menu|all  step=<every step-th k in singles, 0 = none>  pairs=0|1  pstep=<every pstep-th k in pairs, 0 = none>
 */
#include "vdrv.h"
#include <sys/syscall.h>
#include "ref/icalio.h"
#include "ref/c05_common.h"

#define SW_FD	200
#define MAXCALL	64
#define MAXDOC	32768

enum {A_SHORT, A_EINTR, A_ENOSPC, A_ZERO, NACT};
static const char *const aname[NACT] = {"short", "eintr", "enospc", "zero"};

struct dev_s {
	int at;		/* 1-based call number on the target descriptor */
	int act;
	size_t k;
};

static struct {
	int on;
	int ndev;
	struct dev_s dev[2];
	int hit[2];
	int calls;
	size_t len[MAXCALL];
	size_t ngot;
	int ovfl;
	char got[MAXDOC];
} sw;

ssize_t
write(int fd, const void *buf, size_t n)
{
	int c;

	if (!sw.on || fd != SW_FD) {
		return syscall(SYS_write, fd, buf, n);
	}
	c = ++sw.calls;
	if (c < MAXCALL) {
		sw.len[c] = n;
	}
	for (int i = 0; i < sw.ndev; i++) {
		if (sw.dev[i].at != c) {
			continue;
		}
		sw.hit[i] = 1;
		switch (sw.dev[i].act) {
		case A_SHORT:
			if (n > sw.dev[i].k) {
				n = sw.dev[i].k;
			}
			break;
		case A_EINTR:
			errno = EINTR;
			return -1;
		case A_ENOSPC:
			errno = ENOSPC;
			return -1;
		default:
			return 0;
		}
	}
	if (sw.ngot + n > sizeof(sw.got)) {
		sw.ovfl = 1;
		n = sizeof(sw.got) - sw.ngot;
	}
	memcpy(sw.got + sw.ngot, buf, n);
	sw.ngot += n;
	return (ssize_t)n;
}

/* ---------- documents ---------- */
/* LEN octets of /<c>0000/<c>0001/... */
static size_t
put_path(char *buf, size_t o, const char *name, char c, int len)
{
	int n = 0;

	o += (size_t)sprintf(buf + o, "%s:", name);
	for (int i = 0; n < len; i++) {
		char seg[16];
		const int l = snprintf(seg, sizeof(seg), "/%c%04d", c, i);
		const int m = len - n < l ? len - n : l;
		memcpy(buf + o, seg, (size_t)m);
		o += (size_t)m, n += m;
	}
	buf[o++] = '\n';
	buf[o] = '\0';
	return o;
}

/* one VEVENT, the path-like fields LEN octets each (0: the field is left out) */
static size_t
put_event(char *buf, size_t o, const char *uid, char tag, const int len[6], const char *sched)
{
	static const char *const fn[6] = {"SUMMARY", "LOCATION", "X-ECHS-IFILE", "X-ECHS-OFILE", "X-ECHS-EFILE", "DESCRIPTION"};

	o += (size_t)sprintf(buf + o, "BEGIN:VEVENT\nUID:%s\n", uid);
	for (int i = 0; i < 6; i++) {
		if (len[i]) {
			o = put_path(buf, o, fn[i], (char)(tag + i), len[i]);
		}
	}
	o += (size_t)sprintf(buf + o, "ATTENDEE:mailto:ops@example.com\nX-ECHS-SHELL:/bin/bash\nX-ECHS-UMASK:027\nX-ECHS-MAX-SIMUL:2\n"
			     "X-ECHS-MAIL-ERR:1\n%sEND:VEVENT\n", sched);
	return o;
}

#define NDOC	4
static const char *const docname[NDOC] = {"small", "1k", "5k", "two-tasks"};
static echs_task_t doc_t[NDOC][2];
static size_t doc_nt[NDOC];

static const char sched_a[] = "DTSTART:20300101T033000Z\nDURATION:PT20M\nRRULE:FREQ=WEEKLY;BYDAY=MO,WE,FR;COUNT=30\n";
static const char sched_b[] = "DTSTART:20300105T120000Z\nRRULE:FREQ=MONTHLY;BYMONTHDAY=5,15,25;BYHOUR=12;UNTIL=20351231T000000Z\n";

static int
make_docs(void)
{
	static char text[MAXDOC];
	static const int l_small[6] = {20, 12, 0, 0, 0, 0};
	static const int l_1k[6] = {150, 150, 150, 150, 150, 150};
	static const int l_5k[6] = {1010, 1005, 1000, 1001, 1002, 300};
	static const int l_5kb[6] = {900, 1007, 1003, 999, 1008, 700};
	size_t o;

	for (int d = 0; d < NDOC; d++) {
		o = (size_t)sprintf(text, "BEGIN:VCALENDAR\nVERSION:2.0\nX-ECHS-OWNER:1000\n");
		switch (d) {
		case 0:
			o = put_event(text, o, "sw-small@verif", 'a', l_small, sched_a);
			break;
		case 1:
			o = put_event(text, o, "sw-1k@verif", 'g', l_1k, sched_b);
			break;
		case 2:
			o = put_event(text, o, "sw-5k@verif", 'm', l_5k, sched_a);
			break;
		default:
			o = put_event(text, o, "sw-two-1@verif", 'A', l_5kb, sched_b);
			o = put_event(text, o, "sw-two-2@verif", 'G', l_5k, sched_a);
			break;
		}
		o += (size_t)sprintf(text + o, "END:VCALENDAR\n");
		doc_nt[d] = ical_tasks(doc_t[d], 2, text, o);
		if (doc_nt[d] != (d == 3 ? 2U : 1U)) {
			return -1;
		}
	}
	return 0;
}

/* write document D in FORM under the script DEV[0..NDEV); the verdict of fini */
static int
run(int d, int form, const struct dev_s *dev, int ndev)
{
	int rc;

	sw.ndev = ndev;
	for (int i = 0; i < ndev; i++) {
		sw.dev[i] = dev[i];
		sw.hit[i] = 0;
	}
	sw.calls = 0;
	sw.ngot = 0U;
	sw.ovfl = 0;
	sw.on = 1;
	if (form == C05_FORM_ECHSD) {
		echs_instruc_t ins = {INSVERB_SCHE, 0U, .t = doc_t[d][0]};
		echs_icalify_init(SW_FD, ins);
	} else {
		echs_icalify_init(SW_FD, (echs_instruc_t){INSVERB_SCHE});
	}
	for (size_t i = 0; i < doc_nt[d]; i++) {
		echs_task_icalify(SW_FD, doc_t[d][i]);
	}
	rc = echs_icalify_fini(SW_FD);
	sw.on = 0;
	return rc;
}

/* ---------- actions ---------- */
/* the I-th action on a call asking for LEN octets; 0 when there is none.  First the refusals, then short(k)
 * for the menu, then (ALLK: every K, else every STEP-th) */
static int
nth_action(struct dev_s *a, long i, size_t len, int allk, long step)
{
	size_t menu[4] = {1U, 2U, len / 2U, len - 1U};
	int nm = 0;

	if (i < NACT - 1) {
		a->act = A_EINTR + (int)i;
		a->k = 0U;
		return 1;
	}
	i -= NACT - 1;
	a->act = A_SHORT;
	/* the distinct members of the menu that are proper short counts */
	for (int j = 0; j < 4; j++) {
		int dup = menu[j] < 1U || menu[j] >= len;
		for (int m = 0; m < nm && !dup; m++) dup = menu[m] == menu[j];
		if (!dup) menu[nm++] = menu[j];
	}
	if (i < nm) {
		a->k = menu[i];
		return 1;
	}
	i -= nm;
	if (allk) {
		a->k = (size_t)i + 1U;
	} else if (step > 0) {
		a->k = (size_t)(i + 1) * (size_t)step;
	} else {
		return 0;
	}
	return a->k < len;
}

static const char*
act_str(char *buf, size_t bsz, const struct dev_s *a)
{
	if (a->act == A_SHORT) {
		snprintf(buf, bsz, "call %d takes %zu octets", a->at, a->k);
	} else {
		snprintf(buf, bsz, "call %d answers %s", a->at, a->act == A_ZERO ? "0" : a->act == A_EINTR ? "-1/EINTR" : "-1/ENOSPC");
	}
	return buf;
}

static char ref[MAXDOC];
static size_t nref;

static void
judge(int d, int form, const struct dev_s *dev, int ndev)
{
	char b1[64], b2[64], acts[32];
	int rc, complete, anyhit = 0;

	snprintf(acts, sizeof(acts), "%s%s%s", aname[dev[0].act], ndev > 1 ? "+" : "", ndev > 1 ? aname[dev[1].act] : "");
	vd_desc("document %s (%zu task(s), %zu octets) in %s form: %s%s%s", docname[d], doc_nt[d], nref, form ? "echsd" : "echsq",
		act_str(b1, sizeof(b1), dev), ndev > 1 ? ", " : "", ndev > 1 ? act_str(b2, sizeof(b2), dev + 1) : "");
	vd_shape("shortwrite/doc=%s/%s/%s", docname[d], form ? "echsd" : "echsq", acts);
	rc = run(d, form, dev, ndev);
	for (int i = 0; i < ndev; i++) anyhit |= sw.hit[i];
	if (anyhit) {
		vd_nontrivial();
	} else {
		vd_count("deviation_not_reached", 1);
	}
	complete = !sw.ovfl && sw.ngot == nref && !memcmp(sw.got, ref, nref);
	if (!complete && rc >= 0) {
		char sig[160];
		size_t i;
		for (i = 0U; i < nref && i < sw.ngot && ref[i] == sw.got[i]; i++);
		snprintf(sig, sizeof(sig), "shortwrite/%s/doc=%s/%s/%s", sw.ngot == nref ? "scrambled" : sw.ngot < nref ? "truncated" : "longer",
			 docname[d], form ? "echsd" : "echsq", acts);
		vd_viol(sig, "%zu octets arrived in %d write calls (reference: %zu octets), they differ from octet %zu on (expected \"%.24s\", arrived \"%.24s\"), "
			"and echs_icalify_fini() returns %d", sw.ngot, sw.calls, nref, i, ref + i, i < sw.ngot ? sw.got + i : "", rc);
	}
	if (complete && rc < 0) {
		vd_count("complete_but_reported_lost", 1);
	}
	if (!complete) {
		vd_count("loss_reported", 1);
	}
	if (vd_want_sample() && ndev > 1 && dev[0].act == A_SHORT) {
		vd_sample("%s -> %zu octets in %d calls, fini %d", vd_sh->desc, sw.ngot, sw.calls, rc);
	}
}

static void
enumerate(void)
{
	const int allk = !strcmp(vd_opt("ks", "menu"), "all");
	const long step = vd_opt_l("step", 97);
	const int pairs = (int)vd_opt_l("pairs", 1);
	const long pstep = vd_opt_l("pstep", 0);

	if (make_docs() < 0) {
		if (vd_next()) {
			vd_desc("building the documents");
			vd_viol("harness/shortwrite/documents", "a document of the driver is not read as the tasks it holds");
		}
		return;
	}
	for (int d = 0; d < NDOC; d++) {
		for (int form = 0; form < 2; form++) {
			static size_t len0[MAXCALL];
			int w0, rc;

			/* the reference, twice */
			rc = run(d, form, NULL, 0);
			w0 = sw.calls;
			nref = sw.ngot;
			memcpy(ref, sw.got, nref);
			ref[nref] = '\0';
			memcpy(len0, sw.len, sizeof(len0));
			if (!vd_next()) {
				;
			} else {
				echs_task_t back[2];
				size_t nb = 0;
				int rc2;
				vd_desc("document %s in %s form, every write call takes all it is given", docname[d], form ? "echsd" : "echsq");
				vd_shape("shortwrite/doc=%s/%s/none", docname[d], form ? "echsd" : "echsq");
				rc2 = run(d, form, NULL, 0);
				if (rc < 0 || rc2 < 0 || w0 < 1 || w0 >= MAXCALL || sw.ngot != nref || memcmp(sw.got, ref, nref)) {
					vd_viol("harness/shortwrite/reference", "undisturbed: fini %d then %d, %d calls, %zu then %zu octets, or the two texts differ", rc, rc2, w0, nref, sw.ngot);
				} else if ((nb = ical_tasks(back, 2, ref, nref)) != doc_nt[d] || back[0]->oid != doc_t[d][0]->oid ||
					   strcmp(back[0]->cmd ?: "", doc_t[d][0]->cmd ?: "")) {
					vd_viol("harness/shortwrite/reference", "the undisturbed text reads back to %zu task(s) instead of %zu, or to another task", nb, doc_nt[d]);
				}
				for (size_t i = 0; i < nb; i++) free_echs_task(back[i]);
				vd_count("write_calls_undisturbed", w0);
			}
			if (w0 < 1 || w0 >= MAXCALL) {
				continue;
			}
			/* singles */
			for (int n1 = 1; n1 <= w0; n1++) {
				struct dev_s a = {n1, 0, 0U};
				for (long i = 0; nth_action(&a, i, len0[n1], allk, step); i++) {
					if (vd_stop()) return;
					if (!vd_next()) continue;
					judge(d, form, &a, 1);
				}
			}
			/* pairs */
			for (int n1 = 1; pairs && n1 <= w0; n1++) {
				struct dev_s a[2] = {{n1, 0, 0U}};
				for (long i = 0; nth_action(a, i, len0[n1], 0, pstep); i++) {
					static size_t len1[MAXCALL];
					int w1;
					if (vd_stop()) return;
					/* what the run looks like with the first deviation alone */
					(void)run(d, form, a, 1);
					w1 = sw.calls < MAXCALL ? sw.calls : MAXCALL - 1;
					memcpy(len1, sw.len, sizeof(len1));
					for (int n2 = n1 + 1; n2 <= w1; n2++) {
						a[1].at = n2;
						for (long j = 0; nth_action(a + 1, j, len1[n2], 0, pstep); j++) {
							if (!vd_next()) continue;
							judge(d, form, a, 2);
						}
					}
				}
			}
		}
	}
}

int
main(int argc, char *argv[])
{
	return vd_main(argc, argv, enumerate);
}
