/* C10 -- "no byte sequence whatsoever makes the parser crash, overrun a buffer or loop": many ATTENDEE lines.
 *
 * The recipients of a task are the one field of an event that is a list growing with the input: every ATTENDEE
 * line appends to a string list (a pointer list that starts with 16 slots and a string pool, both doubled by
 * realloc() when full).  Documents:
 *   one    one VEVENT with n = 1..maxn ATTENDEE lines, all addresses 1, 15, 16 or 40 characters long, or the four
 *          lengths in turn with every other line written with mailto:
 *   two    two VEVENTs with (n1, n2) ATTENDEE lines of 16 characters each, n1, n2 from
 *          {15, 16, 17, 31, 32, 33, 63, 64, 65}
 * fed to the real pull parser (echs_evical_push, echs_evical_pull until INSVERB_UNK, at the end a pull and
 * echs_evical_last_pull) through one reused buffer
 *   whole  in one piece
 *   ones   byte by byte
 *   c1     in two pieces, cut at EVERY position
 *
 * Oracle
 *   crash/...                  the worker died (sanitizer report in the asan variant, abort of the C library's
 *                              allocator or a fault in either); hang/... from the supervisor
 *   attendees/heap-damage/...  plain variant: every heap block obtained during the parse has 2 KiB of a pattern
 *                              behind it (ref/guardalloc.h); the pattern has changed when the block is released,
 *                              grown, or the parse is over: something was written behind the end of the block
 *   attendees/runaway/...      more instructions than the document has components
 *   attendees/read/...         the uncut run yields as many tasks as there are events, each with exactly the
 *                              addresses written, in order (README: ATTENDEE = recipients, mailto: is not part of
 *                              the address) -- without this the next clause could be met by runs that all lose the
 *                              same recipients
 *   attendees/chunk-dep/...    a partition yields other tasks (UID, command, recipients) than the uncut run
 *
 * A case = (document, partition family); evaluations count parses.   options: maxn=N (default 70)
 */
#include "vdrv.h"
/* a parse holds a few hundred blocks at most; the table is wiped after every parse */
#define GA_TABZ	(1U << 11)
#include "ref/guardalloc.h"
#include <stdbool.h>
#include "evical.h"
#include "task.h"
#include "instruc.h"
#include "intern.h"
#include "strlst.h"

#define DOCMAX	16384
#define MAXATT	80
#define MAXEV	2

struct doc_s {
	int nev;
	int n[MAXEV];
	int alen;		/* 0: mixed */
	size_t len;
	char text[DOCMAX];
	char addr[MAXEV][MAXATT][48];
	char name[160];
};

struct obs_s {
	int nins, ntask, runaway;
	struct {
		char uid[32];
		char cmd[32];
		int natt;
		char att[MAXATT][48];
	} t[4];
};

static struct doc_s D;
static struct obs_s REF, GOT;
static char iobuf[DOCMAX + 64];

static const char*
ncls(int n)
{
	/* the list starts with 16 slots and doubles */
	return n < 16 ? "n<16" : n < 32 ? "n<32" : n < 64 ? "n<64" : "n>=64";
}

static void
mkdoc(struct doc_s *d, int nev, int n0, int n1, int alen)
{
	static const int mixlen[] = {1, 15, 16, 40};
	size_t o = 0;

	d->nev = nev;
	d->n[0] = n0, d->n[1] = n1;
	d->alen = alen;
	o += (size_t)snprintf(d->text + o, DOCMAX - o, "BEGIN:VCALENDAR\nVERSION:2.0\n");
	for (int e = 0; e < nev; e++) {
		o += (size_t)snprintf(d->text + o, DOCMAX - o, "BEGIN:VEVENT\nUID:att%d@verif\nSUMMARY:/bin/true %d\nDTSTART:20310101T000000Z\nORGANIZER:mailto:boss@example.com\n", e, e);
		for (int i = 0; i < d->n[e]; i++) {
			const int l = alen ? alen : mixlen[i & 3];
			char *a = d->addr[e][i];
			for (int j = 0; j < l; j++) a[j] = (char)('a' + (i * 7 + j * 3 + e) % 26);
			if (l >= 3) a[l / 2] = '@';
			if (l >= 6) {
				/* make the addresses of an event distinct */
				a[0] = (char)('a' + i / 26), a[1] = (char)('a' + i % 26);
			}
			a[l] = '\0';
			o += (size_t)snprintf(d->text + o, DOCMAX - o, "ATTENDEE:%s%s\n", !alen && (i & 1) ? "mailto:" : "", a);
		}
		o += (size_t)snprintf(d->text + o, DOCMAX - o, "END:VEVENT\n");
	}
	o += (size_t)snprintf(d->text + o, DOCMAX - o, "END:VCALENDAR\n");
	if (o >= DOCMAX) {
		fprintf(stderr, "c10_attendees: document too long\n");
		_exit(3);
	}
	d->len = o;
	if (nev == 1) {
		snprintf(d->name, sizeof(d->name), "one VEVENT with %d ATTENDEE lines, addresses of %s%.0d characters (%zu octets)", n0,
			 alen ? "" : "1, 15, 16, 40 (every other with mailto:)", alen, o);
	} else {
		snprintf(d->name, sizeof(d->name), "two VEVENTs with %d and %d ATTENDEE lines, addresses of %d characters (%zu octets)", n0, n1, alen, o);
	}
}

static void
take(struct obs_s *r, echs_instruc_t ins)
{
	if (++r->nins > 8) {
		r->runaway = 1;
	}
	if (ins.v == INSVERB_SCHE && ins.t != NULL) {
		if (r->ntask < 4) {
			echs_task_t t = ins.t;
			const char *u = t->oid ? obint_name(t->oid) : NULL;
			snprintf(r->t[r->ntask].uid, sizeof(r->t[0].uid), "%s", u ? u : "(none)");
			snprintf(r->t[r->ntask].cmd, sizeof(r->t[0].cmd), "%s", t->cmd ? t->cmd : "(none)");
			r->t[r->ntask].natt = 0;
			if (t->att != NULL) {
				for (size_t i = 0; i < t->att->nl && t->att->l[i] != NULL; i++) {
					if (i < MAXATT) {
						snprintf(r->t[r->ntask].att[i], sizeof(r->t[0].att[0]), "%s", t->att->l[i]);
					}
					r->t[r->ntask].natt++;
				}
			}
			r->ntask++;
		}
		free_echs_task(ins.t);
	}
}

/* feed the document in pieces: CUT > 0 two pieces, STEP > 0 regular pieces of that size */
static int
run(struct obs_s *r, const struct doc_s *d, size_t cut, size_t step)
{
	ical_parser_t pp = NULL;
	echs_instruc_t ins;
	int bad;

	memset(r, 0, sizeof(*r));
	vd_sh->evals++;
	vd_beat();
	ga_begin();
	for (size_t at = 0; at < d->len && !r->runaway;) {
		size_t n = step ? step : cut > at ? cut - at : d->len - at;
		if (n > d->len - at) n = d->len - at;
		/* one buffer, reused for every piece, as every caller does */
		memcpy(iobuf, d->text + at, n);
		at += n;
		if (echs_evical_push(&pp, iobuf, n) < 0) {
			break;
		}
		while (!r->runaway && (ins = echs_evical_pull(&pp)).v != INSVERB_UNK) {
			take(r, ins);
		}
	}
	while (!r->runaway && (ins = echs_evical_pull(&pp)).v != INSVERB_UNK) {
		take(r, ins);
	}
	ins = echs_evical_last_pull(&pp);
	if (ins.v != INSVERB_UNK) {
		take(r, ins);
	}
	bad = ga_end();
	clear_interns();
	return bad;
}

static bool
same(const struct obs_s *a, const struct obs_s *b, char *why, size_t wz, const char **what)
{
	if (a->ntask != b->ntask) {
		*what = "tasks";
		snprintf(why, wz, "%d tasks, uncut %d", b->ntask, a->ntask);
		return false;
	}
	for (int i = 0; i < a->ntask; i++) {
		if (strcmp(a->t[i].uid, b->t[i].uid) || strcmp(a->t[i].cmd, b->t[i].cmd)) {
			*what = "task";
			snprintf(why, wz, "task %d is %s / %s, uncut %s / %s", i, b->t[i].uid, b->t[i].cmd, a->t[i].uid, a->t[i].cmd);
			return false;
		}
		if (a->t[i].natt != b->t[i].natt) {
			*what = "count";
			snprintf(why, wz, "task %d has %d recipients, uncut %d", i, b->t[i].natt, a->t[i].natt);
			return false;
		}
		for (int j = 0; j < a->t[i].natt && j < MAXATT; j++) {
			if (strcmp(a->t[i].att[j], b->t[i].att[j])) {
				*what = "value";
				snprintf(why, wz, "recipient %d of task %d is %s, uncut %s", j + 1, i, b->t[i].att[j], a->t[i].att[j]);
				return false;
			}
		}
	}
	return true;
}

static void
judge(const struct doc_s *d, const char *pfam, const char *how, int bad, const char *dcls)
{
	char sig[160], why[256];
	const char *what = "";

	if (bad) {
		snprintf(sig, sizeof(sig), "attendees/heap-damage/%s/%s", dcls, pfam);
		vd_viol(sig, "%s: %s", how, ga_what);
	}
	if (GOT.runaway) {
		snprintf(sig, sizeof(sig), "attendees/runaway/%s/%s", dcls, pfam);
		vd_viol(sig, "%s: more than 8 instructions from a document of %d components", how, d->nev);
	}
	if (&GOT != &REF && !same(&REF, &GOT, why, sizeof(why), &what)) {
		snprintf(sig, sizeof(sig), "attendees/chunk-dep/%s/%s/%s", dcls, pfam, what);
		vd_viol(sig, "%s: %s", how, why);
	}
}

static void
one_doc(const struct doc_s *d, int pf)
{
	static const char *const pfn[] = {"whole", "ones", "c1"};
	char dcls[64], sig[160], how[64];
	int nmax = d->n[0] > d->n[1] ? d->n[0] : d->n[1];
	int bad;

	snprintf(dcls, sizeof(dcls), "%s/%s", d->nev == 1 ? "one" : "two", ncls(nmax));
	vd_shape("attendees/%s/%s", dcls, pfn[pf]);
	vd_desc("%s, %s", d->name, pf == 0 ? "in one piece" : pf == 1 ? "byte by byte" : "in two pieces, every cut");
	/* the uncut run */
	bad = run(&REF, d, 0, 0);
	if (pf == 0) {
		memcpy(&GOT, &REF, sizeof(GOT));
		judge(d, pfn[pf], "in one piece", bad, dcls);
		if (REF.ntask != d->nev) {
			snprintf(sig, sizeof(sig), "attendees/read/%s/tasks", dcls);
			vd_viol(sig, "the uncut run yields %d tasks, the document has %d events", REF.ntask, d->nev);
			return;
		}
		for (int e = 0; e < d->nev; e++) {
			if (REF.t[e].natt != d->n[e]) {
				snprintf(sig, sizeof(sig), "attendees/read/%s/count", dcls);
				vd_viol(sig, "event %d reads to %d recipients, %d ATTENDEE lines written", e, REF.t[e].natt, d->n[e]);
				return;
			}
			for (int i = 0; i < d->n[e]; i++) {
				if (strcmp(REF.t[e].att[i], d->addr[e][i])) {
					snprintf(sig, sizeof(sig), "attendees/read/%s/value", dcls);
					vd_viol(sig, "recipient %d of event %d reads %s, written %s", i + 1, e, REF.t[e].att[i], d->addr[e][i]);
					return;
				}
			}
		}
	} else if (pf == 1) {
		bad = run(&GOT, d, 0, 1);
		judge(d, pfn[pf], "byte by byte", bad, dcls);
	} else {
		for (size_t c = 1; c < d->len; c++) {
			bad = run(&GOT, d, c, 0);
			snprintf(how, sizeof(how), "cut at %zu", c);
			judge(d, pfn[pf], how, bad, dcls);
		}
	}
	if (nmax >= 2) {
		vd_nontrivial();
	}
	vd_sample("%s", vd_sh->desc);
}

static void
enumerate(void)
{
	static const int alens[] = {1, 15, 16, 40, 0};
	static const int menu[] = {15, 16, 17, 31, 32, 33, 63, 64, 65};
	const int maxn = (int)vd_opt_l("maxn", 70);

	vd_count_cases = 0;
	for (int n = 1; n <= maxn && n <= MAXATT; n++) {
		for (int ai = 0; ai < 5; ai++) {
			for (int pf = 0; pf < 3; pf++) {
				if (!vd_next()) continue;
				mkdoc(&D, 1, n, 0, alens[ai]);
				one_doc(&D, pf);
			}
		}
	}
	for (int i = 0; i < 9; i++) {
		for (int j = 0; j < 9; j++) {
			for (int pf = 0; pf < 3; pf++) {
				if (!vd_next()) continue;
				mkdoc(&D, 2, menu[i], menu[j], 16);
				one_doc(&D, pf);
			}
		}
	}
}

int
main(int argc, char *argv[])
{
	return vd_main(argc, argv, enumerate);
}
