/* C08 -- instant arithmetic and the library's epoch conversions agree with
 * the proleptic Gregorian calendar (reference: ref/civil.h).
 *
 * Code under test: echs_instant_diff / echs_instant_add / echs_instant_fixup
 * (instant.c), echs_instant_{lt,le,eq}_p (instant.h), echs_range_dur
 * (range.h), echs_event_range (event.h), echs_instant_to_epoch /
 * epoch_to_echs_instant (tzob.c).  The daemon's instant_to_tstamp is in
 * c08_tstamp.c.
 *
 * options: mode=days     case = base day a; inner loop over the partner days b
 *                        deltas=quick|all
 *          mode=intraday case = month boundary k1; inner loop over boundaries k2
 *                        span=N (|k1-k2| <= N plus first and last) or span=all
 *          mode=durs     case = month boundary; every instant of it x a list of durations
 *          mode=fixup    case = (year, month 1..24); inner loop over d,H,M,S,ms
 *          mode=epoch    case = day; secs=3|all  stride=N (with secs=all)
 *          mode=dayfrac  case = month boundary; the two all-day instants around it x durations with a sub-day part
 *          mode=epochseq case = day; epoch_to_echs_instant called for ordered pairs/triples (t1, t2, t1) of unix times
 *                        in ONE process, every answer judged (a conversion must not depend on the calls before it)
 *
 * Three kinds of instant are told apart: `allday' (H == 0xff), `allsec'
 * (ms == 0x3ff, what the iCalendar parser produces) and `ms' (a millisecond
 * value 0..999).  Arithmetic is only judged between instants of one kind.
 */
#include "vdrv.h"
#include "ref/lviol.h"
#include "ref/civil.h"
#include <stdbool.h>
#include <inttypes.h>
#include "instant.h"
#include "range.h"
#include "event.h"

#define Y0	1901
#define Y1	2099
#define MSDAY	CV_MS_PER_DAY

enum {K_ALLDAY, K_ALLSEC, K_MS, K_MIXED};
static const char *kname[] = {"allday", "allsec", "ms", "mixed"};

/* reference instant: day number since 1970-01-01, kind, ms within the day */
struct rinst_s {
	int64_t day;
	int kind;
	int64_t msod;	/* 0 for allday, multiple of 1000 for allsec */
};

static int64_t Z0, Z1;	/* day numbers of 1901-01-01, 2099-12-31 */
static long NDAYS;

static echs_instant_t
mk(unsigned y, unsigned m, unsigned d, unsigned H, unsigned M, unsigned S, unsigned ms)
{
	echs_instant_t i = {.u = 0U};
	i.y = y, i.m = m, i.d = d, i.H = H, i.M = M, i.S = S, i.ms = ms;
	return i;
}

static echs_instant_t
r2i(struct rinst_s r)
{
	struct cv_ymd_s c = cv_civil_from_days(r.day);
	switch (r.kind) {
	case K_ALLDAY:
		return mk(c.y, c.m, c.d, ECHS_ALL_DAY, 0, 0, 0);
	case K_ALLSEC: {
		int64_t s = r.msod / 1000;
		return mk(c.y, c.m, c.d, s / 3600, s / 60 % 60, s % 60, ECHS_ALL_SEC);
	}
	default: {
		int64_t s = r.msod / 1000;
		return mk(c.y, c.m, c.d, s / 3600, s / 60 % 60, s % 60, r.msod % 1000);
	}
	}
}

static int64_t
rabs(struct rinst_s r)
{
	return r.day * MSDAY + r.msod;
}

/* reference order key: all-day before every time of its day, all-sec before
 * every millisecond of its second */
static int
rcmp(struct rinst_s a, struct rinst_s b)
{
	int64_t ka[4] = {a.day, a.kind == K_ALLDAY ? -1 : a.msod / 1000, a.kind == K_MS ? a.msod % 1000 : -1, 0};
	int64_t kb[4] = {b.day, b.kind == K_ALLDAY ? -1 : b.msod / 1000, b.kind == K_MS ? b.msod % 1000 : -1, 0};
	if (a.kind == K_ALLDAY) ka[2] = 0;
	if (b.kind == K_ALLDAY) kb[2] = 0;
	for (int i = 0; i < 3; i++) {
		if (ka[i] != kb[i]) return ka[i] < kb[i] ? -1 : 1;
	}
	return 0;
}

static const char*
istr(echs_instant_t i)
{
	static char buf[8][64];
	static int k;
	char *b = buf[k++ & 7];
	int n = snprintf(b, 64, "%04u-%02u-%02u", (unsigned)i.y, (unsigned)i.m, (unsigned)i.d);
	if (i.H == ECHS_ALL_DAY && !i.M && !i.S && !i.ms) {
		snprintf(b + n, 64 - n, "(all-day)");
	} else if (i.ms == ECHS_ALL_SEC) {
		snprintf(b + n, 64 - n, "T%02u:%02u:%02u", (unsigned)i.H, (unsigned)i.M, (unsigned)i.S);
	} else {
		snprintf(b + n, 64 - n, "T%02u:%02u:%02u.%03u", (unsigned)i.H, (unsigned)i.M, (unsigned)i.S, (unsigned)i.ms);
	}
	return b;
}

/* violation classes */
enum {C_DIFF, C_ADD, C_ORDER, C_FIXUP, C_TOEPOCH, C_FROMEPOCH, C_DIFFADD, C_EPOCHSEQ};
static const char *cname[] = {"diff", "add", "order", "fixup", "to-epoch", "from-epoch", "diff-of-add", "from-epoch-seq"};

#define ID(clause, kind, cls, err)	((clause) << 10 | (kind) << 8 | (cls) << 3 | (err))
#define LIKELY_OK(x)	__builtin_expect(!!(x), 1)

/* magnitude/sign class of a true difference in ms */
static int
dcls(int64_t d)
{
	int64_t a = d < 0 ? -d : d;
	int m = a == 0 ? 0 : a < (INT64_C(1) << 31) ? 1 : a < (INT64_C(1) << 32) ? 2 : 3;
	return m == 0 ? 0 : (d < 0 ? 4 : 0) + m;
}
static const char *dclsname[] = {"zero", "pos-lt2e31ms", "pos-lt2e32ms", "pos-ge2e32ms", "?", "neg-lt2e31ms", "neg-lt2e32ms", "neg-ge2e32ms"};

static long n_eval, n_nontriv;

/* diff(b,a) against the reference */
static inline bool
chk_diff(echs_instant_t A, struct rinst_s a, echs_instant_t B, struct rinst_s b, bool via_range)
{
	int64_t want = rabs(b) - rabs(a);
	int64_t got = via_range
		? echs_range_dur((echs_range_t){A, B}).d
		: echs_instant_diff(B, A).d;

	if (LIKELY_OK(got == want)) {
		return true;
	}
	{
		int err = got == (int64_t)(uint32_t)want ? 0 : (got - want) % MSDAY == 0 ? 1 : 2;
		static const char *en[] = {"wrap32", "off-by-whole-days", "other"};
		int id = ID(C_DIFF, 0, dcls(want), err);
		if (lv_hit(id)) {
			char sig[120];
			snprintf(sig, sizeof(sig), "diff/%s/%s", dclsname[dcls(want)], en[err]);
			lv_set(id, sig, "echs_instant_diff(end=%s, beg=%s) = %" PRId64 " ms, true elapsed time %" PRId64 " ms",
			       istr(B), istr(A), got, want);
		}
	}
	return false;
}

/* add(a, true difference) must be b */
static inline bool
chk_add(echs_instant_t A, struct rinst_s a, echs_instant_t B, struct rinst_s b, bool via_event)
{
	int64_t d = rabs(b) - rabs(a);
	echs_instant_t r;

	if (via_event) {
		echs_event_t e = {.from = A, .dur = {d}};
		r = echs_event_range(e).end;
	} else {
		r = echs_instant_add(A, (echs_idiff_t){d});
	}
	if (LIKELY_OK(r.u == B.u)) {
		return true;
	}
	{
		int err = r.intra == B.intra ? 0 : r.dpart == B.dpart ? 1 : 2;
		static const char *en[] = {"date-wrong", "time-wrong", "date-and-time-wrong"};
		int id = ID(C_ADD, 0, dcls(d), err);
		if (lv_hit(id)) {
			char sig[120];
			snprintf(sig, sizeof(sig), "add/%s/%s", dclsname[dcls(d)], en[err]);
			lv_set(id, sig, "echs_instant_add(%s, %" PRId64 " ms) = %s, calendar says %s",
			       istr(A), d, istr(r), istr(B));
		}
	}
	return false;
}

/* ordering predicates against the reference order */
static inline void
chk_order(echs_instant_t A, struct rinst_s a, echs_instant_t B, struct rinst_s b)
{
	int c = rcmp(a, b);
	bool lt = echs_instant_lt_p(A, B), le = echs_instant_le_p(A, B), eq = echs_instant_eq_p(A, B);

	if (LIKELY_OK(lt == (c < 0) && le == (c <= 0) && eq == (c == 0))) {
		return;
	}
	{
		int kind = a.kind == b.kind ? a.kind : K_MIXED;
		int which = lt != (c < 0) ? 0 : le != (c <= 0) ? 1 : 2;
		static const char *wn[] = {"lt", "le", "eq"};
		int cls = (a.kind * 3 + b.kind);	/* 0..8 */
		int id = ID(C_ORDER, kind, cls, which);
		if (lv_hit(id)) {
			char sig[120];
			snprintf(sig, sizeof(sig), "order/%s/%s-vs-%s/%s", wn[which], kname[a.kind], kname[b.kind],
				 c < 0 ? "before" : c > 0 ? "after" : "same");
			lv_set(id, sig, "x=%s y=%s: lt_p=%d le_p=%d eq_p=%d, reference order says x %s y",
			       istr(A), istr(B), lt, le, eq, c < 0 ? "<" : c > 0 ? ">" : "==");
		}
	}
}

/* ---- mode=days ---------------------------------------------------- */
static echs_instant_t *tab_allday, *tab_allsec;

static inline void
day_pair(long ia, long ib, bool with_add, bool with_add_sec)
{
	struct rinst_s a = {Z0 + ia, K_ALLDAY, 0}, b = {Z0 + ib, K_ALLDAY, 0};

	chk_diff(tab_allday[ia], a, tab_allday[ib], b, false);
	if (with_add) {
		chk_add(tab_allday[ia], a, tab_allday[ib], b, false);
	}
	chk_order(tab_allday[ia], a, tab_allday[ib], b);
	a.kind = b.kind = K_ALLSEC;
	chk_diff(tab_allsec[ia], a, tab_allsec[ib], b, false);
	if (with_add_sec) {
		chk_add(tab_allsec[ia], a, tab_allsec[ib], b, false);
	}
	chk_order(tab_allsec[ia], a, tab_allsec[ib], b);
	/* all-day against midnight of the partner day */
	a.kind = K_ALLDAY;
	chk_order(tab_allday[ia], a, tab_allsec[ib], b);
	n_eval += 2;
	/* non-trivial: the two days lie in different months */
	if (tab_allday[ia].dpart >> 8 != tab_allday[ib].dpart >> 8) {
		n_nontriv += 2;
	}
}

static void
mode_days(void)
{
	const char *deltas = vd_opt("deltas", "quick");
	const bool all = !strcmp(deltas, "all");
	/* with deltas=all, add() (which walks month by month) is evaluated for
	 * |delta| <= addmax and beyond that for every addstride-th delta on
	 * all-day instants and every addstride2-th on all-second instants;
	 * diff and the ordering predicates see every pair */
	const long addmax = vd_opt_l("addmax", NDAYS);
	const long addstride = vd_opt_l("addstride", 1);
	const long addstride2 = vd_opt_l("addstride2", 1);

	tab_allday = malloc(NDAYS * sizeof(*tab_allday));
	tab_allsec = malloc(NDAYS * sizeof(*tab_allsec));
	for (long i = 0; i < NDAYS; i++) {
		tab_allday[i] = r2i((struct rinst_s){Z0 + i, K_ALLDAY, 0});
		tab_allsec[i] = r2i((struct rinst_s){Z0 + i, K_ALLSEC, 0});
	}
	vd_shape("days/%s", deltas);
	for (long ia = 0; ia < NDAYS; ia++) {
		if (!vd_next()) continue;
		vd_desc("base day a=%s, partner days b: %s", istr(tab_allday[ia]),
			all ? "every day 1901-01-01..2099-12-31, nearest first"
			: "a+-1..400, a+-k*365, a+-k*366, a+-k*1461, first and last day");
		n_eval = n_nontriv = 0;
		if (all) {
			day_pair(ia, ia, true, true);
			for (long k = 1; k < NDAYS; k++) {
				bool wa = k <= addmax || k % addstride == 0;
				bool wa2 = k <= addmax || k % addstride2 == 0;
				if (ia + k < NDAYS) day_pair(ia, ia + k, wa, wa2);
				if (ia - k >= 0) day_pair(ia, ia - k, wa, wa2);
				if (!(k & 0x3ff)) vd_beat();
			}
		} else {
			static const int per[] = {365, 366, 1461};
			day_pair(ia, ia, true, true);
			vd_beat();
			for (long k = 1; k <= 400; k++) {
				if (ia + k < NDAYS) day_pair(ia, ia + k, true, true);
				if (ia - k >= 0) day_pair(ia, ia - k, true, true);
			}
			for (int p = 0; p < 3; p++) {
				for (long k = per[p] > 400 ? per[p] : 2 * per[p]; k < NDAYS; k += per[p]) {
					if (ia + k < NDAYS) day_pair(ia, ia + k, true, true);
					if (ia - k >= 0) day_pair(ia, ia - k, true, true);
				}
			}
			if (ia > 400) day_pair(ia, 0, true, true);
			if (NDAYS - 1 - ia > 400) day_pair(ia, NDAYS - 1, true, true);
		}
		lv_flush();
		vd_sh->evals += n_eval;
		vd_sh->nontriv += n_nontriv;
		vd_sample("days: a=%s against %ld partner days, all-day and all-second kinds: diff, add, order",
			  istr(tab_allday[ia]), n_eval / 2);
	}
}

/* ---- month boundaries ---------------------------------------------- */
struct bnd_s {
	int64_t day;	/* the day before the boundary */
};
static struct bnd_s *bnd;
static int nbnd;

static void
mk_boundaries(void)
{
	bnd = malloc(sizeof(*bnd) * (Y1 - Y0 + 1) * 13);
	for (int y = Y0; y <= Y1; y++) {
		for (int m = 1; m <= 12; m++) {
			if (y == Y1 && m == 12) break;
			if (m == 2 && cv_leap_p(y)) {
				/* 28 | 29 Feb */
				bnd[nbnd++].day = cv_days_from_civil(y, 2, 28);
			}
			bnd[nbnd++].day = cv_days_from_civil(y, m, cv_mdays(y, m));
		}
	}
}

/* times of day used around boundaries */
static const int64_t T_ms[] = {0, 1, 999, 43199000, 43200000, 86399000, 86399999};
static const int64_t T_s[] = {0, 43199000, 43200000, 86399000};
static const int64_t T_ms_far[] = {0, 86399999};
static const int64_t T_s_far[] = {0, 86399000};

struct iset_s {
	int n;
	struct rinst_s r[32];
	echs_instant_t i[32];
};

static void
mk_iset(struct iset_s *s, int k, bool far)
{
	s->n = 0;
	for (int side = 0; side < 2; side++) {
		int64_t day = bnd[k].day + side;
		const int64_t *tm = far ? T_ms_far : T_ms, *ts = far ? T_s_far : T_s;
		int ntm = far ? 2 : 7, nts = far ? 2 : 4;
		s->r[s->n++] = (struct rinst_s){day, K_ALLDAY, 0};
		for (int j = 0; j < nts; j++) s->r[s->n++] = (struct rinst_s){day, K_ALLSEC, ts[j]};
		for (int j = 0; j < ntm; j++) s->r[s->n++] = (struct rinst_s){day, K_MS, tm[j]};
	}
	for (int j = 0; j < s->n; j++) s->i[j] = r2i(s->r[j]);
}

static void
bnd_pair(const struct iset_s *sa, const struct iset_s *sb)
{
	for (int x = 0; x < sa->n; x++) {
		for (int y = 0; y < sb->n; y++) {
			chk_order(sa->i[x], sa->r[x], sb->i[y], sb->r[y]);
			if (sa->r[x].kind != sb->r[y].kind) continue;
			/* through the range.h / event.h wrappers the callers use */
			chk_diff(sa->i[x], sa->r[x], sb->i[y], sb->r[y], true);
			chk_add(sa->i[x], sa->r[x], sb->i[y], sb->r[y], true);
			n_eval++;
			n_nontriv += rabs(sa->r[x]) != rabs(sb->r[y]);
		}
	}
}

static void
mode_intraday(void)
{
	const char *spans = vd_opt("span", "12");
	const bool all = !strcmp(spans, "all");
	const int span = all ? 12 : atoi(spans);

	mk_boundaries();
	vd_shape("intraday/span=%s", spans);
	for (int k1 = 0; k1 < nbnd; k1++) {
		struct iset_s sa, sb, saf;
		if (!vd_next()) continue;
		mk_iset(&sa, k1, false);
		mk_iset(&saf, k1, true);
		vd_desc("instants around midnight %s|%s against those of %s", istr(sa.i[0]), istr(sa.i[sa.n / 2]),
			all ? "every month boundary and leap day 1901..2099" : "the nearest boundaries, the first and the last");
		n_eval = n_nontriv = 0;
		for (int dk = 0; dk < nbnd; dk++) {
			for (int sg = 0; sg < (dk ? 2 : 1); sg++) {
				int k2 = sg ? k1 - dk : k1 + dk;
				if (k2 < 0 || k2 >= nbnd) continue;
				if (dk <= span) {
					mk_iset(&sb, k2, false);
					bnd_pair(&sa, &sb);
				} else if (all || k2 == 0 || k2 == nbnd - 1) {
					mk_iset(&sb, k2, true);
					bnd_pair(&saf, &sb);
				}
			}
			if (!(dk & 0x1f)) vd_beat();
		}
		lv_flush();
		vd_sh->evals += n_eval;
		vd_sh->nontriv += n_nontriv;
		vd_sample("intraday: %d instants around %s|%s (times 00:00:00[.000/.001/.999], 11:59:59, 12:00:00, 23:59:59[.999], all-day) "
			  "x %ld same-kind partners: range_dur, event_range, order",
			  sa.n, istr(sa.i[0]), istr(sa.i[sa.n / 2]), n_eval);
	}
}

/* ---- mode=durs: add an explicit duration, then take the difference ---- */
static void
mode_durs(void)
{
	static const int64_t D[] = {
		1, 999, 1000, 1001, 59999, 60000, 3599999, 3600000, 43200000, 86399000, 86399999, 86400000, 86400001,
		INT64_C(2147483647), INT64_C(2147483648), INT64_C(4294967295), INT64_C(4294967296),
		27 * MSDAY, 28 * MSDAY, 29 * MSDAY, 30 * MSDAY, 31 * MSDAY, 49 * MSDAY, 50 * MSDAY, 59 * MSDAY, 60 * MSDAY,
		365 * MSDAY, 366 * MSDAY, 1461 * MSDAY, 36524 * MSDAY, 36525 * MSDAY,
		365 * MSDAY + 86399999, 1461 * MSDAY + 1,
	};
	mk_boundaries();
	vd_shape("durs");
	for (int k = 0; k < nbnd; k++) {
		struct iset_s s;
		if (!vd_next()) continue;
		mk_iset(&s, k, false);
		vd_desc("instants around midnight %s|%s plus/minus a list of %zu durations", istr(s.i[0]), istr(s.i[s.n / 2]), sizeof(D) / sizeof(*D));
		n_eval = n_nontriv = 0;
		for (int x = 0; x < s.n; x++) {
			vd_beat();
			for (size_t j = 0; j < sizeof(D) / sizeof(*D); j++) {
				for (int sg = 0; sg < 2; sg++) {
					int64_t d = sg ? -D[j] : D[j];
					struct rinst_s b = s.r[x];
					int64_t abs;
					echs_instant_t r, B;

					if (s.r[x].kind == K_ALLDAY && d % MSDAY) continue;
					if (s.r[x].kind == K_ALLSEC && d % 1000) continue;
					abs = rabs(b) + d;
					b.day = abs >= 0 ? abs / MSDAY : -((-abs + MSDAY - 1) / MSDAY);
					b.msod = abs - b.day * MSDAY;
					if (b.day < Z0 || b.day > Z1) continue;
					B = r2i(b);
					n_eval++, n_nontriv++;
					if (!chk_add(s.i[x], s.r[x], B, b, false)) continue;
					/* add was right, so the inverse clause is judged on its own */
					r = echs_instant_add(s.i[x], (echs_idiff_t){d});
					{
						int64_t got = echs_instant_diff(r, s.i[x]).d;
						if (got != d) {
							int err = got == (int64_t)(uint32_t)d ? 0 : (got - d) % MSDAY == 0 ? 1 : 2;
							static const char *en[] = {"wrap32", "off-by-whole-days", "other"};
							int id = ID(C_DIFFADD, 0, dcls(d), err);
							if (lv_hit(id)) {
								char sig[120];
								snprintf(sig, sizeof(sig), "diff-of-add/%s/%s", dclsname[dcls(d)], en[err]);
								lv_set(id, sig, "a=%s d=%" PRId64 " ms: add(a,d)=%s (correct) but diff(add(a,d),a)=%" PRId64,
								       istr(s.i[x]), d, istr(r), got);
							}
						}
					}
				}
			}
		}
		lv_flush();
		vd_sh->evals += n_eval;
		vd_sh->nontriv += n_nontriv;
		vd_sample("durs: %d instants around %s|%s, %ld (instant,duration) inputs: add vs calendar, diff(add(a,d),a)=d",
			  s.n, istr(s.i[0]), istr(s.i[s.n / 2]), n_eval);
	}
}

/* ---- mode=dayfrac: an all-day instant plus a duration that is not a whole number of days ---- */
/* Neither instant.h nor the README says to which side the sub-day part is dropped, so the clause is only:
 * the result is an all-day instant again, a calendar day, and it lies within base + floor(d / 1 day) ..
 * base + ceil(d / 1 day), i.e. less than a day away from the true elapsed time; and the difference of the
 * result and the base is that whole number of days.  Directly and through echs_event_range() (what
 * `echse unroll --format %e' prints for a DATE event with a DURATION like P1DT12H). */
static void
mode_dayfrac(void)
{
	static const int64_t whole[] = {0, 1, 2, 27, 28, 29, 30, 31, 59, 60, 365, 366, 1461, 36524};
	static const int64_t frac[] = {1, 999, 1000, 59999, 60000, 3599999, 3600000, 43199999, 43200000, 43200001, 86399000, 86399999};
	char failed[8];
	long n_left = 0;
	mk_boundaries();
	vd_shape("dayfrac");
	for (int k = 0; k < nbnd; k++) {
		if (!vd_next()) continue;
		{
			struct cv_ymd_s c0 = cv_civil_from_days(bnd[k].day), c1 = cv_civil_from_days(bnd[k].day + 1);
			vd_desc("all-day instants %04d-%02d-%02d and %04d-%02d-%02d plus/minus (w days + r ms), w in {0,1,2,27..31,59,60,365,366,1461,36524}, "
				"r in {1,999,1000,59999,60000,3599999,3600000,43199999,43200000,43200001,86399000,86399999}",
				c0.y, c0.m, c0.d, c1.y, c1.m, c1.d);
		}
		n_eval = n_nontriv = 0;
		/* once an input of a (sign, magnitude) class has failed in this case the rest of the class is left out
		 * (counted): a wrong day count can make a single call walk millions of months */
		memset(failed, 0, sizeof(failed));
		for (int side = 0; side < 2; side++) {
			const struct rinst_s a = {bnd[k].day + side, K_ALLDAY, 0};
			const echs_instant_t A = r2i(a);

			vd_beat();
			for (size_t w = 0; w < sizeof(whole) / sizeof(*whole); w++) {
				for (size_t f = 0; f < sizeof(frac) / sizeof(*frac); f++) {
					for (int sg = 0; sg < 2; sg++) {
						for (int via = 0; via < 2; via++) {
							const int64_t mag = whole[w] * MSDAY + frac[f];
							const int64_t d = sg ? -mag : mag;
							/* floor and ceiling of d in days */
							const int64_t lo = a.day + (sg ? -whole[w] - 1 : whole[w]);
							const int64_t hi = lo + 1;
							echs_instant_t r;
							int64_t rday = 0;
							int err;

							if (lo < Z0 || hi > Z1) continue;
							if (failed[dcls(d)]) {
								n_left++;
								continue;
							}
							n_eval++, n_nontriv++;
							if (via) {
								echs_event_t e = {.from = A, .dur = {d}};
								r = echs_event_range(e).end;
							} else {
								r = echs_instant_add(A, (echs_idiff_t){d});
							}
							if (r.H != ECHS_ALL_DAY || r.M || r.S || r.ms) {
								err = 0;
							} else if (r.m < 1 || r.m > 12 || r.d < 1 || (int)r.d > cv_mdays(r.y, r.m)) {
								err = 1;
							} else if ((rday = cv_days_from_civil(r.y, r.m, r.d)) < lo || rday > hi) {
								err = 2;
							} else {
								/* the inverse clause on its own */
								int64_t got = echs_instant_diff(r, A).d;
								if (got == (rday - a.day) * MSDAY) continue;
								failed[dcls(d)] = 1;
								{
									int id = ID(C_DIFFADD, K_ALLDAY, dcls(d), 3);
									if (lv_hit(id)) {
										char sig[120];
										snprintf(sig, sizeof(sig), "diff-of-add/allday-subday/%s", dclsname[dcls(d)]);
										lv_set(id, sig, "a=%s d=%" PRId64 " ms: add(a,d)=%s but diff(add(a,d),a)=%" PRId64 " ms, the two days are %" PRId64 " days apart",
										       istr(A), d, istr(r), got, rday - a.day);
									}
								}
								continue;
							}
							failed[dcls(d)] = 1;
							{
								static const char *en[] = {"not-all-day", "no-calendar-day", "a-day-or-more-off"};
								int id = ID(C_ADD, K_ALLDAY, dcls(d), 3 + err);
								if (lv_hit(id)) {
									char sig[120];
									struct cv_ymd_s l = cv_civil_from_days(lo), h = cv_civil_from_days(hi);
									snprintf(sig, sizeof(sig), "add/allday-subday/%s/%s", dclsname[dcls(d)], en[err]);
									lv_set(id, sig, "%s(%s, %" PRId64 " ms = %s%" PRId64 " d + %" PRId64 " ms) = %s (y=%u m=%u d=%u H=%u M=%u S=%u ms=%u), "
									       "true elapsed time ends between all-day %04d-%02d-%02d and %04d-%02d-%02d",
									       via ? "echs_event_range" : "echs_instant_add", istr(A), d, sg ? "-" : "", whole[w], frac[f], istr(r),
									       (unsigned)r.y, (unsigned)r.m, (unsigned)r.d, (unsigned)r.H, (unsigned)r.M, (unsigned)r.S, (unsigned)r.ms,
									       l.y, l.m, l.d, h.y, h.m, h.d);
								}
							}
						}
					}
				}
			}
		}
		lv_flush();
		if (n_left) vd_count("inputs_left_out_after_a_failure_of_their_class", n_left);
		n_left = 0;
		vd_sh->evals += n_eval;
		vd_sh->nontriv += n_nontriv;
		vd_sample("dayfrac: all-day instants on both sides of %s|next x %ld (duration, entry point) inputs with a sub-day part, both signs",
			  istr(r2i((struct rinst_s){bnd[k].day, K_ALLDAY, 0})), n_eval);
	}
}

/* ---- mode=fixup ----------------------------------------------------- */
static void
mode_fixup(void)
{
	static const unsigned Ms[] = {0, 59, 60, 119}, Ss[] = {0, 59, 60, 63}, mss[] = {0, 999, 1000, 1022, ECHS_ALL_SEC};

	vd_shape("fixup");
	for (int y = Y0; y <= Y1; y++) {
		for (unsigned m = 1; m <= 24; m++) {
			int64_t first;
			int my = y + (m - 1) / 12, mm = (m - 1) % 12 + 1;
			if (!vd_next()) continue;
			vd_desc("fixup of y=%d m=%u with d=1..62, H=0..48 or all-day, M in {0,59,60,119}, S in {0,59,60,63}, ms in {0,999,1000,1022,all-sec}", y, m);
			first = cv_days_from_civil(my, mm, 1);
			n_eval = n_nontriv = 0;
			for (unsigned d = 1; d <= 62; d++) {
				vd_beat();
				for (unsigned H = 0; H <= 49; H++) {
					const bool allday = H == 49;
					for (int iM = 0; iM < (allday ? 1 : 4); iM++) {
						for (int iS = 0; iS < (allday ? 1 : 4); iS++) {
							for (int ims = 0; ims < (allday ? 1 : 5); ims++) {
								unsigned M = Ms[iM], S = Ss[iS], ms = mss[ims];
								const int kind = allday ? K_ALLDAY : ms == ECHS_ALL_SEC ? K_ALLSEC : K_MS;
								echs_instant_t in = mk(y, m, d, allday ? ECHS_ALL_DAY : H, M, S, ms);
								struct rinst_s w = {first + (d - 1), kind, 0};
								int64_t t = 0;
								echs_instant_t want, got;

								if (kind != K_ALLDAY) {
									t = (((int64_t)H * 60 + M) * 60 + S) * 1000 + (kind == K_MS ? ms : 0);
								}
								w.day += t / MSDAY;
								w.msod = t % MSDAY;
								if (w.day > Z1) continue;
								want = r2i(w);
								got = echs_instant_fixup(in);
								n_eval++;
								/* non-trivial: at least one field out of its range */
								if (m > 12 || d > (unsigned)cv_mdays(my, mm) || (!allday && (H >= 24 || M >= 60 || S >= 60 || (kind == K_MS && ms >= 1000)))) {
									n_nontriv++;
								}
								if (got.u == want.u) continue;
								{
									int tf = allday ? 0 : (kind == K_MS && ms >= 1000) ? 1 : S >= 60 ? 2 : M >= 60 ? 3 : H >= 24 ? 4 : 0;
									int df = (m > 12 ? 1 : 0) | (d > (unsigned)cv_mdays(my, mm) ? 2 : 0);
									int err = got.intra == want.intra ? 0 : got.dpart == want.dpart ? 1 : 2;
									/* does a carry push a field past what its bits can hold?
									 * (S has 6 bits; M, H, d have 8) */
									unsigned cS = S + (kind == K_MS ? ms / 1000 : 0), cM = M + cS / 60, cH = H + cM / 60, cd = d + (allday ? 0 : cH / 24);
									const char *sat = allday ? NULL : cS > 63 ? "S" : cM > 255 ? "M" : cH > 255 ? "H" : cd > 255 ? "d" : NULL;
									static const char *tn[] = {"none", "ms", "S", "M", "H"};
									static const char *dn[] = {"none", "m", "d", "m+d"};
									static const char *en[] = {"date-wrong", "time-wrong", "date-and-time-wrong"};
									int id = sat ? ID(C_FIXUP, kind, 31, 0) : ID(C_FIXUP, kind, tf << 2 | df, err);
									if (lv_hit(id)) {
										char sig[120];
										if (sat) {
											snprintf(sig, sizeof(sig), "fixup/%s/carry-exceeds-field-width=%s", kname[kind], sat);
										} else {
											snprintf(sig, sizeof(sig), "fixup/%s/lowest-time-overflow=%s/date-overflow=%s/%s", kname[kind], tn[tf], dn[df], en[err]);
										}
										lv_set(id, sig, "echs_instant_fixup(y=%d m=%u d=%u H=%u M=%u S=%u ms=%u) = %s, same point in time is %s",
										       y, m, d, (unsigned)in.H, M, S, ms, istr(got), istr(want));
									}
								}
							}
						}
					}
				}
			}
			lv_flush();
			vd_sh->evals += n_eval;
			vd_sh->nontriv += n_nontriv;
			vd_sample("fixup: y=%d m=%u, %ld field combinations (d<=62, H<=48/all-day, M<=119, S<=63, ms<=1022/all-sec)", y, m, n_eval);
		}
	}
}

/* ---- mode=epoch ----------------------------------------------------- */
static const char*
era(int64_t t)
{
	return t < 0 ? "pre-1970" : t < (INT64_C(1) << 31) ? "1970-2038" : "post-2038";
}

static void
mode_epoch(void)
{
	const char *secs = vd_opt("secs", "3");
	const bool all = !strcmp(secs, "all");
	const long stride = vd_opt_l("stride", 1);
	static const int s3[] = {0, 1, 43199, 43200, 86399};

	for (long id_ = 0; id_ < NDAYS; id_++) {
		int64_t day = Z0 + id_;
		struct cv_ymd_s c;
		int ns = all ? 86400 : 5;
		long rtbad = 0;

		if (!vd_next()) continue;
		c = cv_civil_from_days(day);
		vd_desc("epoch conversions on %04d-%02d-%02d, %s", c.y, c.m, c.d,
			all ? "every second (or every stride-th)" : "seconds 0, 1, 43199, 43200, 86399 of the day");
		/* pass 1: instant -> epoch */
		vd_shape("epoch/to-epoch/%s", era(day * 86400));
		n_eval = n_nontriv = 0;
		for (int k = 0; k < ns; k += all ? stride : 1) {
			int s = all ? k : s3[k];
			int64_t t = day * 86400 + s;
			echs_instant_t I = mk(c.y, c.m, c.d, s / 3600, s / 60 % 60, s % 60, ECHS_ALL_SEC);
			int64_t got = (int64_t)echs_instant_to_epoch(I);
			const int janfeb = c.m <= 2;
			const int e = t < 0 ? 0 : t < (INT64_C(1) << 31) ? 1 : 2;

			n_eval++;
			n_nontriv += t != 0;
			if (got != t) {
				int64_t dl = got - t;
				int64_t yr = (int64_t)(365 + ((c.m <= 2 && cv_leap_p(c.y)) || (c.m > 2 && cv_leap_p(c.y + 1)))) * 86400;
				int err = dl == yr ? 0
					: got == (int64_t)(uint32_t)t ? 1
					: got == (int64_t)(uint32_t)(t + yr) ? 2 : 3;
				static const char *en[] = {"one-year-late", "wrap32", "one-year-late+wrap32", "other"};
				int id = ID(C_TOEPOCH, K_ALLSEC, janfeb << 2 | e, err);
				if (lv_hit(id)) {
					char sig[120];
					snprintf(sig, sizeof(sig), "to-epoch/%s/%s/%s", janfeb ? "jan-feb" : "mar-dec", era(t), en[err]);
					lv_set(id, sig, "echs_instant_to_epoch(%s) = %" PRId64 ", calendar says %" PRId64 " (off by %" PRId64 " s)",
					       istr(I), got, t, dl);
				}
			}
			if (all && !(k & 0x3ff)) vd_beat();
		}
		lv_flush();
		vd_sh->evals += n_eval;
		vd_sh->nontriv += n_nontriv;
		/* pass 2: epoch -> instant (may crash, so it comes second) */
		vd_shape("epoch/from-epoch/%s", era(day * 86400));
		n_eval = n_nontriv = 0;
		for (int k = 0; k < ns; k += all ? stride : 1) {
			int s = all ? k : s3[k];
			int64_t t = day * 86400 + s;
			echs_instant_t I = mk(c.y, c.m, c.d, s / 3600, s / 60 % 60, s % 60, ECHS_ALL_SEC);
			echs_instant_t J = epoch_to_echs_instant((time_t)t);
			const int e = t < 0 ? 0 : t < (INT64_C(1) << 31) ? 1 : 2;

			n_eval++;
			n_nontriv += t != 0;
			if (J.y != I.y || J.m != I.m || J.d != I.d || J.H != I.H || J.M != I.M || J.S != I.S) {
				int err = (J.dpart == I.dpart) ? 1 : (J.H == I.H && J.M == I.M && J.S == I.S) ? 0 : 2;
				static const char *en[] = {"date-wrong", "time-wrong", "date-and-time-wrong"};
				int id = ID(C_FROMEPOCH, K_ALLSEC, e, err);
				if (lv_hit(id)) {
					char sig[120];
					snprintf(sig, sizeof(sig), "from-epoch/%s/%s", era(t), en[err]);
					lv_set(id, sig, "epoch_to_echs_instant(%" PRId64 ") = %s, calendar says %s", t, istr(J), istr(I));
				}
			} else if (J.ms != ECHS_ALL_SEC && J.ms != 0U) {
				/* the right second, but the instant carries a millisecond part
				 * that is neither 0 nor the whole-second marker */
				int id = ID(C_FROMEPOCH, K_MS, e, 3);
				if (lv_hit(id)) {
					char sig[120];
					snprintf(sig, sizeof(sig), "from-epoch/%s/ms-field", era(t));
					lv_set(id, sig, "epoch_to_echs_instant(%" PRId64 ") = %s: right second, but the ms field is %u (neither 0 nor the all-second marker 0x3ff)",
					       t, istr(J), (unsigned)J.ms);
				}
			}
			/* do the two directions agree with each other (informational, implied by the two clauses above) */
			if ((int64_t)echs_instant_to_epoch(J) != t) {
				rtbad++;
			}
			if (all && !(k & 0x3ff)) vd_beat();
		}
		lv_flush();
		if (rtbad) vd_count("to_epoch(from_epoch(t))!=t", rtbad);
		vd_sh->evals += n_eval;
		vd_sh->nontriv += n_nontriv;
		n_eval *= 2;
		vd_sample("epoch: %04d-%02d-%02d, %ld conversions (instant->epoch and epoch->instant per second examined)", c.y, c.m, c.d, n_eval);
	}
}

/* ---- mode=epochseq --------------------------------------------------- */
/* epoch_to_echs_instant() is a pure function of its argument as far as the property goes: "all conversions ...
 * agree with the calendar" holds for every call, whatever was converted before.  mode=epoch asks day after day in
 * ascending order, one call per time; here every ORDERED pair (t1, t2) of a set of times is converted back to back
 * in one process, followed by t1 again, and each of the three answers is judged against the calendar.
 * Case = day D; t1 in {D 00:00:00 - 1 s, D 00:00:00, D 00:00:01, D 12:00:00};
 * t2 in {seconds 0, 1, 86399 of the days D-3 .. D+3} + {D +- 365 d, +- 366 d, +- 1461 d at t1's time of day,
 * 1901-01-01T00:00:00, 2099-12-31T23:59:59, 1969-12-31T23:59:59, 1970-01-01T00:00:00, 2^31 - 1, 2^31}. */
static int
seq_judge(int64_t t, echs_instant_t J, echs_instant_t *want)
{
	int64_t day = t >= 0 ? t / 86400 : -((-t + 86399) / 86400);
	int s = (int)(t - day * 86400);
	struct cv_ymd_s c = cv_civil_from_days(day);
	echs_instant_t I = mk(c.y, c.m, c.d, s / 3600, s / 60 % 60, s % 60, ECHS_ALL_SEC);

	*want = I;
	if (J.y != I.y || J.m != I.m || J.d != I.d || J.H != I.H || J.M != I.M || J.S != I.S) {
		return (J.dpart == I.dpart) ? 1 : (J.H == I.H && J.M == I.M && J.S == I.S) ? 0 : 2;
	} else if (J.ms != ECHS_ALL_SEC && J.ms != 0U) {
		return 3;
	}
	return -1;
}

static void
mode_epochseq(void)
{
	static const int s1[] = {-1, 0, 1, 43200};
	static const int s2[] = {0, 1, 86399};
	static const int64_t farabs[] = {0 /* Z0 */, 0 /* Z1 end */, -1, 0, (INT64_C(1) << 31) - 1, INT64_C(1) << 31};
	static const int fard[] = {365, -365, 366, -366, 1461, -1461};
	const int64_t tmin = Z0 * 86400, tmax = Z1 * 86400 + 86399;

	vd_shape("epochseq");
	for (long id_ = 0; id_ < NDAYS; id_++) {
		int64_t day = Z0 + id_;
		struct cv_ymd_s c;

		if (!vd_next()) continue;
		c = cv_civil_from_days(day);
		vd_desc("epoch_to_echs_instant called for t1, t2, t1 in a row (one process): t1 in {00:00:00 - 1 s, 00:00:00, 00:00:01, 12:00:00} of %04d-%02d-%02d, "
			"t2 in seconds {0, 1, 86399} of the 7 days around it, t1 +- 365/366/1461 days, the ends of 1901-2099, -1, 0, 2^31 - 1, 2^31",
			c.y, c.m, c.d);
		n_eval = n_nontriv = 0;
		for (int i1 = 0; i1 < 4; i1++) {
			const int64_t t1 = day * 86400 + s1[i1];
			int64_t part[40];
			int np = 0;

			if (t1 < tmin || t1 > tmax) continue;
			for (int dd = 0; dd <= 3; dd++) {
				for (int sg = 0; sg < (dd ? 2 : 1); sg++) {
					for (int j = 0; j < 3; j++) {
						part[np++] = (day + (sg ? -dd : dd)) * 86400 + s2[j];
					}
				}
			}
			for (int j = 0; j < 6; j++) {
				part[np++] = t1 + (int64_t)fard[j] * 86400;
			}
			part[np++] = tmin;
			part[np++] = tmax;
			for (int j = 2; j < 6; j++) {
				part[np++] = farabs[j];
			}
			vd_beat();
			for (int ip = 0; ip < np; ip++) {
				const int64_t t2 = part[ip];
				const int64_t tt[3] = {t1, t2, t1};
				/* t2's day relative to t1's day */
				int64_t d1 = t1 >= 0 ? t1 / 86400 : -((-t1 + 86399) / 86400);
				int64_t d2 = t2 >= 0 ? t2 / 86400 : -((-t2 + 86399) / 86400);
				const int rel = d2 < d1 ? 0 : d2 == d1 ? 1 : 2;
				static const char *rn[] = {"t2-on-earlier-day", "t2-on-same-day", "t2-on-later-day"};
				static const char *pn[] = {"first-call", "second-call", "third-call"};
				static const char *en[] = {"date-wrong", "time-wrong", "date-and-time-wrong", "ms-field"};

				if (t2 < tmin || t2 > tmax) continue;
				n_eval++;
				n_nontriv += t1 != t2;
				for (int k = 0; k < 3; k++) {
					echs_instant_t want, J = epoch_to_echs_instant((time_t)tt[k]);
					int err = seq_judge(tt[k], J, &want);
					if (LIKELY_OK(err < 0)) continue;
					{
						int id = ID(C_EPOCHSEQ, k, rel, err);
						if (lv_hit(id)) {
							char sig[120];
							snprintf(sig, sizeof(sig), "from-epoch-seq/%s/%s/%s", pn[k], rn[rel], en[err]);
							lv_set(id, sig, "calls in a row: epoch_to_echs_instant(%" PRId64 "), (%" PRId64 "), (%" PRId64 "): call %d gave %s%s, calendar says %s",
							       t1, t2, t1, k + 1, istr(J), err == 3 ? " with an ms field that is neither 0 nor the all-second marker" : "", istr(want));
						}
					}
				}
			}
		}
		lv_flush();
		vd_sh->evals += n_eval;
		vd_sh->nontriv += n_nontriv;
		vd_sample("epochseq: %04d-%02d-%02d, %ld ordered pairs (t1, t2), each converted as t1, t2, t1 back to back", c.y, c.m, c.d, n_eval);
	}
}

static void
enumerate(void)
{
	const char *mode = vd_opt("mode", "days");

	Z0 = cv_days_from_civil(Y0, 1, 1);
	Z1 = cv_days_from_civil(Y1, 12, 31);
	NDAYS = (long)(Z1 - Z0 + 1);
	vd_count_cases = 0;
	if (!strcmp(mode, "days")) {
		mode_days();
	} else if (!strcmp(mode, "intraday")) {
		mode_intraday();
	} else if (!strcmp(mode, "durs")) {
		mode_durs();
	} else if (!strcmp(mode, "fixup")) {
		mode_fixup();
	} else if (!strcmp(mode, "epoch")) {
		mode_epoch();
	} else if (!strcmp(mode, "dayfrac")) {
		mode_dayfrac();
	} else if (!strcmp(mode, "epochseq")) {
		mode_epochseq();
	} else {
		fprintf(stderr, "unknown mode %s\n", mode);
		_exit(3);
	}
}

int
main(int argc, char *argv[])
{
	/* once, not per worker restart */
	if (cv_selftest(Y0 - 1, Y1 + 1) < 0) {
		fprintf(stderr, "c08: reference calendar failed its self test\n");
		return 3;
	}
	return vd_main(argc, argv, enumerate);
}
