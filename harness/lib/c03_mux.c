/* C03 -- merged event stream is chronological, complete and duplicate-free;
 * peeking never consumes.
 *
 * Model checking of operation sequences over {peek, pop} against a sorted
 * multiset reference model, on the real mux code (evstrm.c) fed by streams
 * that come out of the real parser (evical.c).
 *
 * case (vd_next)  = one configuration: constituents x construction path
 * evaluation      = one maximal operation sequence, executed on a freshly
 *                   parsed and freshly muxed stream (replay from scratch)
 *
 * Reference model: every constituent is parsed *alone* and drained; the model
 * is the union of those lists sorted by instant, with an occurrence that has
 * the same (UID, instant) in several constituents kept once.  The driver never
 * looks into the mux.
 *
 * options:
 *   fam=plain|rr   family of configurations
 *   nmin,nmax      number of constituents (plain), number of RRULEs (rr: 2..3)
 *   lmax           longest constituent list (plain), 0..3
 *   paths=LIST     comma list out of vmux,mux,nest,nestr,onefile,files (plain)
 *   rdmasks,xmasks (rr) subsets of {t1,t2,t3} as bit masks 0..7, e.g. 0,2,7, that
 *                  the RDATE list resp. the second event range over (all)
 *   maxpeek        most consecutive peeks (2)
 *   freeat=0|1     additionally replay every prefix and free the partially
 *                  consumed stream there (for the sanitizer variant)
 */
#include "vdrv.h"
#include <stdbool.h>
#include "ref/icalio.h"
#include "evstrm.h"

#define NI	3	/* instant alphabet */
#define MAXC	8	/* constituents of one configuration */
#define MAXM	(MAXC * NI)
#define MAXOPS	(3 * MAXM + 4)

static const char *const tstr[NI] = {
	"20150301T120000Z", "20150302T120000Z", "20150303T120000Z",
};
static const char *const uidstr[2] = {"a", "b"};

/* RRULEs that, from DTSTART t1, give each non-empty subset of {t1,t2,t3}
 * (index = subset mask - 1) */
static const char *const rulestr[7] = {
	/* 001 {t1}       */ "FREQ=DAILY;COUNT=1",
	/* 010 {t2}       */ "FREQ=MONTHLY;BYMONTHDAY=2;COUNT=1",
	/* 011 {t1,t2}    */ "FREQ=DAILY;COUNT=2",
	/* 100 {t3}       */ "FREQ=MONTHLY;BYMONTHDAY=3;COUNT=1",
	/* 101 {t1,t3}    */ "FREQ=DAILY;INTERVAL=2;COUNT=2",
	/* 110 {t2,t3}    */ "FREQ=MONTHLY;BYMONTHDAY=2,3;COUNT=2",
	/* 111 {t1,t2,t3} */ "FREQ=DAILY;COUNT=3",
};

enum {P_VMUX, P_MUX, P_NEST, P_NESTR, P_ONEFILE, P_FILES, P_RR, NPATHS};
static const char *const pname[NPATHS] = {
	"vmux", "mux", "nest", "nestr", "onefile", "files", "rrules",
};
/* class of the path as used in signatures */
static const char *const pclass[NPATHS] = {
	"flat", "muxclone", "nested", "nested", "flat", "flat", "rrules",
};

struct cfg_s {
	int path;
	/* plain family */
	int n;
	struct {
		int mask;
		int uid;
	} c[4];
	/* rr family */
	int nr;
	int rule[3];	/* subset masks 1..7 */
	int rdmask;	/* RDATE list on the same event, 0 = none */
	int xmask;	/* a second event muxed in, 0 = none */
	int xuid;
};

/* everything derived from a configuration, built once per case */
struct plan_s {
	struct cfg_s cfg;
	/* the constituents, each as a calendar of its own (reference and
	 * the per-stream paths) */
	int ncons;
	char ctxt[MAXC][512];
	char cdesc[MAXC][64];
	/* texts that are parsed to build the merged stream */
	int ntxt;
	char txt[4][2048];
	char desc[1024];
};

struct occ_s {
	uint64_t key;
	echs_oid_t oid;
};

/* model: sorted by key, one entry per (oid, key) */
struct model_s {
	int m;
	struct occ_s e[MAXM];
	int ncontrib[MAXM];
	echs_oid_t uid_oid[2];
	int nonempty_cons;
};

static int maxpeek = 2;
static int freeat = 0;
static char shape0[128];


/* independent ordering key of an instant (civil fields only) */
static uint64_t
ikey(echs_instant_t i)
{
	return (((((uint64_t)i.y * 16U + i.m) * 32U + i.d) * 32U + i.H) * 64U + i.M) * 64U + i.S;
}

static const char*
occ_str(char *buf, size_t bsz, const struct model_s *mo, struct occ_s o)
{
	const char *u = o.oid == mo->uid_oid[0] ? "a" : o.oid == mo->uid_oid[1] ? "b" : "?";
	unsigned d = (unsigned)(o.key >> 17) & 31U;
	unsigned H = (unsigned)(o.key >> 12) & 31U;
	unsigned mth = (unsigned)(o.key >> 22) & 15U;

	if ((o.key >> 26) == 2015U && mth == 3U && H == 12U && d >= 1U && d <= NI && !(o.key & 4095U)) {
		snprintf(buf, bsz, "%s@t%u", u, d);
	} else {
		snprintf(buf, bsz, "%s@key%llx", u, (unsigned long long)o.key);
	}
	return buf;
}

static size_t
mask_str(char *buf, size_t bsz, int mask)
{
	size_t o = 0;
	o += snprintf(buf + o, bsz - o, "{");
	for (int i = 0, k = 0; i < NI; i++) {
		if (mask >> i & 1) {
			o += snprintf(buf + o, bsz - o, "%st%d", k++ ? "," : "", i + 1);
		}
	}
	o += snprintf(buf + o, bsz - o, "}");
	return o;
}

/* property lines of an explicit-instant event; DTSTART is the first instant
 * and is repeated in the RDATE list so that both readings of "is DTSTART an
 * occurrence of an RDATE-only event" give the same list.  PLAINFORM: a
 * single instant is written as an ordinary one-off event. */
static size_t
lines_list(char *buf, size_t bsz, int mask, bool plainform)
{
	size_t o = 0;
	int first = -1;

	buf[0] = '\0';
	for (int i = 0; i < NI; i++) {
		if (mask >> i & 1) {
			first = i;
			break;
		}
	}
	if (first < 0) {
		/* no DTSTART at all: a task without a stream */
		return 0U;
	}
	o += snprintf(buf + o, bsz - o, "DTSTART:%s\n", tstr[first]);
	if (plainform && !(mask & (mask - 1))) {
		return o;
	}
	o += snprintf(buf + o, bsz - o, "RDATE:");
	for (int i = 0, k = 0; i < NI; i++) {
		if (mask >> i & 1) {
			o += snprintf(buf + o, bsz - o, "%s%s", k++ ? "," : "", tstr[i]);
		}
	}
	o += snprintf(buf + o, bsz - o, "\n");
	return o;
}

static size_t
vevent(char *buf, size_t bsz, const char *uid, const char *lines)
{
	return (size_t)snprintf(buf, bsz,
		"BEGIN:VEVENT\nUID:%s\nSUMMARY:true\n%sEND:VEVENT\n", uid, lines);
}

static void
make_plan(struct plan_s *pl, const struct cfg_s *cf)
{
	char lines[512], ev[768];
	size_t o = 0;

	memset(pl, 0, sizeof(*pl));
	pl->cfg = *cf;
	if (cf->path != P_RR) {
		pl->ncons = cf->n;
		o += snprintf(pl->desc + o, sizeof(pl->desc) - o, "path=%s n=%d:", pname[cf->path], cf->n);
		for (int i = 0; i < cf->n; i++) {
			size_t k = snprintf(pl->cdesc[i], sizeof(pl->cdesc[i]), "%s", uidstr[cf->c[i].uid]);
			mask_str(pl->cdesc[i] + k, sizeof(pl->cdesc[i]) - k, cf->c[i].mask);
			o += snprintf(pl->desc + o, sizeof(pl->desc) - o, " %s", pl->cdesc[i]);
			lines_list(lines, sizeof(lines), cf->c[i].mask, i & 1);
			ical_wrap(pl->ctxt[i], sizeof(pl->ctxt[i]), uidstr[cf->c[i].uid], lines);
		}
		switch (cf->path) {
			int cut;
		case P_ONEFILE:
		case P_FILES:
			/* constituents 0..cut-1 in the first file, the rest in the second */
			cut = cf->path == P_ONEFILE ? cf->n : (cf->n + 1) / 2;
			for (int f = 0, i = 0; f < 2; f++) {
				int till = f ? cf->n : cut;
				size_t q = 0;
				if (i >= till) {
					continue;
				}
				q += snprintf(pl->txt[pl->ntxt] + q, sizeof(pl->txt[0]) - q, "BEGIN:VCALENDAR\nVERSION:2.0\n");
				for (; i < till; i++) {
					lines_list(lines, sizeof(lines), cf->c[i].mask, i & 1);
					vevent(ev, sizeof(ev), uidstr[cf->c[i].uid], lines);
					q += snprintf(pl->txt[pl->ntxt] + q, sizeof(pl->txt[0]) - q, "%s", ev);
				}
				q += snprintf(pl->txt[pl->ntxt] + q, sizeof(pl->txt[0]) - q, "END:VCALENDAR\n");
				pl->ntxt++;
			}
			break;
		default:
			break;
		}
		o += snprintf(pl->desc + o, sizeof(pl->desc) - o, " (t1..t3 = %s %s %s)", tstr[0], tstr[1], tstr[2]);
	} else {
		size_t q = 0;

		o += snprintf(pl->desc + o, sizeof(pl->desc) - o, "path=rrules: event a DTSTART:%s", tstr[0]);
		/* the event under test */
		q += snprintf(lines + q, sizeof(lines) - q, "DTSTART:%s\n", tstr[0]);
		for (int i = 0; i < cf->nr; i++) {
			char l1[256];
			q += snprintf(lines + q, sizeof(lines) - q, "RRULE:%s\n", rulestr[cf->rule[i] - 1]);
			o += snprintf(pl->desc + o, sizeof(pl->desc) - o, " RRULE:%s", rulestr[cf->rule[i] - 1]);
			/* constituent: this rule alone */
			snprintf(l1, sizeof(l1), "DTSTART:%s\nRRULE:%s\n", tstr[0], rulestr[cf->rule[i] - 1]);
			ical_wrap(pl->ctxt[pl->ncons], sizeof(pl->ctxt[0]), "a", l1);
			snprintf(pl->cdesc[pl->ncons], sizeof(pl->cdesc[0]), "a/RRULE:%s", rulestr[cf->rule[i] - 1]);
			pl->ncons++;
		}
		if (cf->rdmask) {
			char l1[256];
			size_t k;

			q += snprintf(lines + q, sizeof(lines) - q, "RDATE:");
			o += snprintf(pl->desc + o, sizeof(pl->desc) - o, " RDATE:");
			k = snprintf(l1, sizeof(l1), "DTSTART:%s\nRDATE:", tstr[0]);
			for (int i = 0, j = 0; i < NI; i++) {
				if (cf->rdmask >> i & 1) {
					q += snprintf(lines + q, sizeof(lines) - q, "%s%s", j ? "," : "", tstr[i]);
					o += snprintf(pl->desc + o, sizeof(pl->desc) - o, "%st%d", j ? "," : "", i + 1);
					k += snprintf(l1 + k, sizeof(l1) - k, "%s%s", j ? "," : "", tstr[i]);
					j++;
				}
			}
			q += snprintf(lines + q, sizeof(lines) - q, "\n");
			k += snprintf(l1 + k, sizeof(l1) - k, "\n");
			ical_wrap(pl->ctxt[pl->ncons], sizeof(pl->ctxt[0]), "a", l1);
			k = snprintf(pl->cdesc[pl->ncons], sizeof(pl->cdesc[0]), "a/RDATE");
			mask_str(pl->cdesc[pl->ncons] + k, sizeof(pl->cdesc[0]) - k, cf->rdmask);
			pl->ncons++;
		}
		ical_wrap(pl->txt[0], sizeof(pl->txt[0]), "a", lines);
		pl->ntxt = 1;
		if (cf->xmask) {
			size_t k;
			lines_list(lines, sizeof(lines), cf->xmask, false);
			ical_wrap(pl->ctxt[pl->ncons], sizeof(pl->ctxt[0]), uidstr[cf->xuid], lines);
			snprintf(pl->txt[1], sizeof(pl->txt[1]), "%s", pl->ctxt[pl->ncons]);
			pl->ntxt = 2;
			k = snprintf(pl->cdesc[pl->ncons], sizeof(pl->cdesc[0]), "%s", uidstr[cf->xuid]);
			mask_str(pl->cdesc[pl->ncons] + k, sizeof(pl->cdesc[0]) - k, cf->xmask);
			o += snprintf(pl->desc + o, sizeof(pl->desc) - o, "; vmux'd with event %s", pl->cdesc[pl->ncons]);
			pl->ncons++;
		}
		o += snprintf(pl->desc + o, sizeof(pl->desc) - o, " (t1..t3 = %s %s %s)", tstr[0], tstr[1], tstr[2]);
	}
	return;
}


/* reference model from the constituents parsed alone; 0 ok, -1 the
 * constituents themselves are not strictly increasing explicit lists */
static int
make_model(struct model_s *mo, const struct plan_s *pl)
{
	char buf[256];

	memset(mo, 0, sizeof(*mo));
	/* what the two UIDs intern to */
	for (int u = 0; u < 2; u++) {
		echs_task_t t;
		ical_wrap(buf, sizeof(buf), uidstr[u], "");
		if ((t = ical_task1(buf)) == NULL) {
			return -2;
		}
		mo->uid_oid[u] = t->oid;
		free_echs_task(t);
	}
	for (int i = 0; i < pl->ncons; i++) {
		echs_task_t t = ical_task1(pl->ctxt[i]);
		uint64_t last = 0U;
		int got = 0;

		if (t == NULL) {
			return -2;
		}
		if (t->strm != NULL) {
			echs_event_t e;
			while (!echs_nul_event_p(e = echs_evstrm_pop(t->strm))) {
				struct occ_s o = {ikey(e.from), e.oid};
				int j;

				if (++got > NI + 1 || o.key <= last || o.oid != t->oid) {
					free_echs_task(t);
					return -1;
				}
				last = o.key;
				/* insert sorted, collapse (oid, key) across constituents */
				for (j = 0; j < mo->m; j++) {
					if (mo->e[j].key == o.key && mo->e[j].oid == o.oid) {
						mo->ncontrib[j]++;
						break;
					} else if (mo->e[j].key > o.key) {
						memmove(mo->e + j + 1, mo->e + j, (mo->m - j) * sizeof(*mo->e));
						memmove(mo->ncontrib + j + 1, mo->ncontrib + j, (mo->m - j) * sizeof(*mo->ncontrib));
						mo->e[j] = o;
						mo->ncontrib[j] = 1;
						mo->m++;
						break;
					}
				}
				if (j >= mo->m) {
					mo->e[mo->m] = o;
					mo->ncontrib[mo->m] = 1;
					mo->m++;
				}
			}
		}
		if (got) {
			mo->nonempty_cons++;
		}
		free_echs_task(t);
	}
	return 0;
}


/* a merged stream built from scratch */
struct live_s {
	echs_evstrm_t m;
	echs_task_t t[MAXC];
	size_t nt;
	int err;
};

static void
strip(echs_task_t t)
{
/* the mux owns the stream now (what echse.c's free_task_ht() does) */
	((struct echs_task_s*)t)->strm = NULL;
}

static void
build(struct live_s *lv, const struct plan_s *pl)
{
	const struct cfg_s *cf = &pl->cfg;
	echs_evstrm_t s[MAXC];
	size_t ns = 0;

	memset(lv, 0, sizeof(*lv));
	switch (cf->path) {
	case P_VMUX:
	case P_MUX:
	case P_NEST:
	case P_NESTR:
		/* every constituent is a calendar of its own */
		for (int i = 0; i < pl->ncons; i++) {
			if ((lv->t[lv->nt] = ical_task1(pl->ctxt[i])) == NULL) {
				lv->err = 1;
				return;
			}
			s[ns++] = lv->t[lv->nt++]->strm;
		}
		break;
	default:
		/* the texts are files with one or more events, tasks come in file order */
		for (int f = 0; f < pl->ntxt; f++) {
			size_t k = ical_tasks(lv->t + lv->nt, MAXC - lv->nt, pl->txt[f], strlen(pl->txt[f]));
			lv->nt += k;
		}
		if ((cf->path == P_RR ? (int)lv->nt != pl->ntxt : (int)lv->nt != pl->ncons)) {
			lv->err = 1;
			return;
		}
		/* echse.c: add_strm() each, condense_strms() */
		for (size_t i = 0; i < lv->nt; i++) {
			if (lv->t[i]->strm != NULL) {
				s[ns++] = lv->t[i]->strm;
			}
		}
		break;
	}

	switch (cf->path) {
	case P_VMUX:
		/* NULL streams (events without occurrences) are passed as they are */
		lv->m = echs_evstrm_vmux(s, ns);
		break;
	case P_MUX: {
		/* NULL terminates the argument list, so leave NULLs out;
		 * this constructor clones, the originals go away at once */
		echs_evstrm_t x[5] = {NULL, NULL, NULL, NULL, NULL};
		size_t nx = 0;
		for (size_t i = 0; i < ns; i++) {
			if (s[i] != NULL) {
				x[nx++] = s[i];
			}
		}
		lv->m = echs_evstrm_mux(x[0], x[1], x[2], x[3], x[4]);
		for (size_t i = 0; i < lv->nt; i++) {
			free_echs_task(lv->t[i]);
		}
		lv->nt = 0;
		break;
	}
	case P_NEST: {
		/* ((s1 s2) s3) resp. ((s1 s2) (s3 s4)); two streams: ((s1 s2) -) */
		echs_evstrm_t in[2], out[2];
		in[0] = s[0], in[1] = ns > 1 ? s[1] : NULL;
		out[0] = echs_evstrm_vmux(in, 2);
		if (ns > 3) {
			in[0] = s[2], in[1] = s[3];
			out[1] = echs_evstrm_vmux(in, 2);
		} else {
			out[1] = ns > 2 ? s[2] : NULL;
		}
		lv->m = echs_evstrm_vmux(out, 2);
		break;
	}
	case P_NESTR: {
		/* (s1 (s2 (s3 s4))), innermost first; two streams: (- (s1 s2)) */
		echs_evstrm_t pr[2];
		echs_evstrm_t acc = s[ns - 1];
		if (ns == 1) {
			pr[0] = NULL, pr[1] = acc;
			acc = echs_evstrm_vmux(pr, 2);
		} else if (ns == 2) {
			pr[0] = s[0], pr[1] = s[1];
			acc = echs_evstrm_vmux(pr, 2);
			pr[0] = NULL, pr[1] = acc;
			acc = echs_evstrm_vmux(pr, 2);
		} else {
			for (int i = (int)ns - 2; i >= 0; i--) {
				pr[0] = s[i], pr[1] = acc;
				acc = echs_evstrm_vmux(pr, 2);
			}
		}
		lv->m = acc;
		break;
	}
	default:
		lv->m = echs_evstrm_vmux(s, ns);
		break;
	}
	for (size_t i = 0; i < lv->nt; i++) {
		strip(lv->t[i]);
	}
	return;
}

static void
teardown(struct live_s *lv)
{
	if (lv->m != NULL) {
		free_echs_evstrm(lv->m);
		lv->m = NULL;
	}
	for (size_t i = 0; i < lv->nt; i++) {
		free_echs_task(lv->t[i]);
	}
	lv->nt = 0;
	return;
}

static echs_event_t
do_op(echs_evstrm_t s, char op)
{
	static const echs_event_t nul;
	if (s == NULL) {
		/* nothing with an occurrence went in: the empty stream */
		return nul;
	}
	return op == 'P' ? echs_evstrm_pop(s) : echs_evstrm_next(s);
}


/* per-case graph bookkeeping: (delivered, consecutive peeks, tail calls) */
static unsigned char st_seen[MAXM + 1][3][3];
static unsigned char tr_seen[MAXM + 1][3][3][2];
/* counters live in shared memory so that they survive a crashing case */
static long *c_states, *c_trans, *c_traces;

static long*
cnt_slot(const char *name)
{
	vd_count(name, 0);
	for (int i = 0; i < VD_NCNT; i++) {
		if (!strcmp(vd_sh->cnt[i].name, name)) {
			return &vd_sh->cnt[i].v;
		}
	}
	return NULL;
}

static void
see_state(int k, int p, int c)
{
	if (!st_seen[k][p][c]) {
		st_seen[k][p][c] = 1;
		++*c_states;
	}
}

static void
see_trans(int k, int p, int c, int op)
{
	if (!tr_seen[k][p][c][op]) {
		tr_seen[k][p][c][op] = 1;
		++*c_trans;
	}
}

static const char*
headclass(const struct model_s *mo, int k)
{
	int tie = 0, dup = 0;
	if (k >= mo->m) {
		return "empty";
	}
	for (int j = k; j < mo->m && mo->e[j].key == mo->e[k].key; j++) {
		tie += j > k;
		dup |= mo->ncontrib[j] > 1;
	}
	return tie ? (dup ? "tie+dup" : "tie") : (dup ? "dup" : "plain");
}

static size_t
model_str(char *buf, size_t bsz, const struct model_s *mo, const bool *delivered)
{
	size_t o = 0;
	char ob[32];
	buf[0] = '\0';
	for (int j = 0; j < mo->m; j++) {
		if (delivered != NULL && delivered[j]) {
			continue;
		}
		o += snprintf(buf + o, bsz - o, "%s%s%s", o ? " " : "", occ_str(ob, sizeof(ob), mo, mo->e[j]),
			      mo->ncontrib[j] > 1 ? "(x2+)" : "");
		if (o >= bsz) {
			break;
		}
	}
	return o;
}

static int
cmp_occ(const void *a, const void *b)
{
	const struct occ_s *x = a, *y = b;
	return x->key < y->key ? -1 : x->key > y->key ? 1 : x->oid < y->oid ? -1 : x->oid > y->oid;
}

/* run one maximal sequence OPS on a fresh stream; nodes at depth >= NEWFROM
 * are visited for the first time (clone oracle there).
 * returns the number of violations reported */
static int
run_sequence(const struct plan_s *pl, struct model_s *mo, const char *ops, int nops, int newfrom, long leafno, bool clonepass)
{
	struct live_s lv;
	bool delivered[MAXM] = {false};
	struct occ_s seen[MAXM + MAXOPS];	/* what the pops delivered */
	int nseen = 0;
	echs_evstrm_t cl[MAXOPS + 1];
	bool clset[MAXOPS + 1] = {false};
	int clfrom[MAXOPS + 1];
	int k = 0, p = 0, c = 0;	/* delivered, consecutive peeks, tail calls */
	bool ended = false;
	struct occ_s pk = {0};
	char after = 's';
	int nv = 0;
	char sig[VD_SIGLEN], ob[32], ms[512];
	const char *pc = pclass[pl->cfg.path];
	int d;

	build(&lv, pl);
	if (lv.err) {
		snprintf(sig, sizeof(sig), "harness-parse/%s", pc);
		if (!clonepass) vd_viol(sig, "the texts of this configuration did not parse into the expected number of tasks");
		teardown(&lv);
		return 1;
	}

#define AFTER	(after == 's' ? "start" : after == 'P' ? "pop" : "peek")
	see_state(0, 0, 0);
	for (d = 0; d <= nops; d++) {
		echs_event_t e;
		struct occ_s r;
		int op;
		int hit = -1, was = -1;

		if (clonepass && d >= newfrom) {
			/* first visit of this prefix: take a clone for the differential oracle,
			 * and one that is thrown away at once */
			if (lv.m != NULL) {
				echs_evstrm_t junk = clone_echs_evstrm(lv.m);
				cl[d] = clone_echs_evstrm(lv.m);
				if (junk != NULL) {
					free_echs_evstrm(junk);
				}
			} else {
				cl[d] = NULL;
			}
			clset[d] = true;
			clfrom[d] = nseen;
			vd_count("clones", 1);
		}
		if (d == nops) {
			break;
		}
		op = ops[d] == 'P';
		see_trans(k, p, c, op);
		e = do_op(lv.m, ops[d]);
		r = (struct occ_s){ikey(e.from), e.oid};

		if (echs_nul_event_p(e)) {
			if (k < mo->m) {
				model_str(ms, sizeof(ms), mo, delivered);
				snprintf(sig, sizeof(sig), "early-end/%s/after=%s/head=%s", pc, AFTER, headclass(mo, k));
				if (!clonepass) vd_viol(sig, "ops=%.*s: step %d (%s) says end of stream but [%s] has not been delivered",
					d + 1, ops, d + 1, op ? "pop" : "peek", ms);
				nv++;
				break;
			}
			ended = true;
		} else {
			for (int j = 0; j < mo->m; j++) {
				if (mo->e[j].key == r.key && mo->e[j].oid == r.oid) {
					if (delivered[j]) {
						was = j;
					} else {
						hit = j;
					}
				}
			}
			if (hit < 0) {
				/* nothing like that is outstanding */
				const char *cls = ended ? "resurrect" : was >= 0 ? "dup" : "alien";
				model_str(ms, sizeof(ms), mo, delivered);
				/* does the model hold several UIDs at this instant */
				bool mixed = false;
				for (int j = 0; j < mo->m; j++) {
					mixed |= mo->e[j].key == r.key && mo->e[j].oid != r.oid;
				}
				snprintf(sig, sizeof(sig), "%s/%s/after=%s/head=%s/inst=%s", cls, pc, AFTER, headclass(mo, k),
					 mixed ? "mixed-uids" : "one-uid");
				if (!clonepass) vd_viol(sig, "ops=%.*s: step %d (%s) gives %s which %s; outstanding [%s]",
					d + 1, ops, d + 1, op ? "pop" : "peek", occ_str(ob, sizeof(ob), mo, r),
					was >= 0 ? "was delivered already" : "no constituent has", ms);
				nv++;
				break;
			} else if (r.key != mo->e[k].key) {
				/* an earlier one is outstanding (the model is sorted and K are gone) */
				model_str(ms, sizeof(ms), mo, delivered);
				snprintf(sig, sizeof(sig), "skip/%s/after=%s/head=%s", pc, AFTER, headclass(mo, k));
				if (!clonepass) vd_viol(sig, "ops=%.*s: step %d (%s) gives %s although an earlier occurrence is outstanding; outstanding [%s]",
					d + 1, ops, d + 1, op ? "pop" : "peek", occ_str(ob, sizeof(ob), mo, r), ms);
				nv++;
				break;
			} else if (p > 0 && (pk.key != r.key || pk.oid != r.oid)) {
				char ob2[32];
				snprintf(sig, sizeof(sig), "peek-unstable/%s/head=%s", pc, headclass(mo, k));
				if (!clonepass) vd_viol(sig, "ops=%.*s: step %d (%s) gives %s but the peek before it showed %s",
					d + 1, ops, d + 1, op ? "pop" : "peek", occ_str(ob, sizeof(ob), mo, r),
					occ_str(ob2, sizeof(ob2), mo, pk));
				nv++;
				break;
			}
		}
		/* advance model and graph position */
		if (k >= mo->m) {
			c++;
		}
		if (op) {
			if (hit >= 0) {
				/* keep the model sorted with the delivered ones in front:
				 * swap HIT into position K (same instant group) */
				struct occ_s to = mo->e[hit];
				int tn = mo->ncontrib[hit];
				mo->e[hit] = mo->e[k], mo->ncontrib[hit] = mo->ncontrib[k];
				mo->e[k] = to, mo->ncontrib[k] = tn;
				delivered[k] = true;
				seen[nseen++] = r;
				k++;
			}
			p = 0;
		} else {
			pk = r;
			p++;
		}
		after = ops[d];
		see_state(k, p, c < 3 ? c : 2);
	}
#undef AFTER

	/* clone oracle: a clone taken after a prefix delivers what the original
	 * delivered from there on (as multisets per instant, non-decreasing) */
	for (int pass = 0; pass < 2; pass++) {
		if (pass == 1) {
			/* the original goes away between the two halves */
			teardown(&lv);
		}
		for (int j = 0; j <= nops; j++) {
			struct occ_s got[MAXM + 8];
			struct occ_s want[MAXM + MAXOPS];
			int ngot = 0, nwant;
			bool unsorted = false, nonterm = false, again = false;

			if (!clset[j] || ((j + (int)leafno) & 1) != pass) {
				continue;
			}
			clset[j] = false;
			if (nv) {
				/* the original went off the model, nothing to compare with */
				if (cl[j] != NULL) {
					free_echs_evstrm(cl[j]);
				}
				continue;
			}
			nwant = nseen - clfrom[j];
			memcpy(want, seen + clfrom[j], nwant * sizeof(*want));
			if (cl[j] != NULL) {
				echs_event_t e;
				while (!echs_nul_event_p(e = echs_evstrm_pop(cl[j]))) {
					if (ngot >= mo->m + 4) {
						nonterm = true;
						break;
					}
					got[ngot] = (struct occ_s){ikey(e.from), e.oid};
					unsorted |= ngot && got[ngot].key < got[ngot - 1].key;
					ngot++;
				}
				if (!nonterm) {
					again = !echs_nul_event_p(echs_evstrm_next(cl[j])) ||
						!echs_nul_event_p(echs_evstrm_pop(cl[j]));
				}
				free_echs_evstrm(cl[j]);
			}
			if (!unsorted) {
				qsort(got, ngot, sizeof(*got), cmp_occ);
				qsort(want, nwant, sizeof(*want), cmp_occ);
			}
			if (cl[j] == NULL && nwant > 0) {
				snprintf(sig, sizeof(sig), "clone-null/%s", pc);
				vd_viol(sig, "ops=%.*s: clone after %d ops is NULL although the original went on to deliver %d occurrence(s)",
					nops, ops, j, nwant);
				nv++;
			} else if (nonterm || again) {
				snprintf(sig, sizeof(sig), "clone-%s/%s", nonterm ? "nonterm" : "resurrect", pc);
				vd_viol(sig, "ops=%.*s: clone after %d ops %s", nops, ops, j,
					nonterm ? "does not end" : "delivers again after its end");
				nv++;
			} else if (unsorted || ngot != nwant || memcmp(got, want, ngot * sizeof(*got))) {
				size_t o = 0;
				ms[0] = '\0';
				for (int i = 0; i < ngot; i++) {
					o += snprintf(ms + o, sizeof(ms) - o, "%s%s", i ? " " : "", occ_str(ob, sizeof(ob), mo, got[i]));
				}
				o += snprintf(ms + o, sizeof(ms) - o, "] original [");
				for (int i = 0; i < nwant; i++) {
					o += snprintf(ms + o, sizeof(ms) - o, "%s%s", i ? " " : "", occ_str(ob, sizeof(ob), mo, want[i]));
				}
				snprintf(sig, sizeof(sig), "clone-differs/%s/%s", pc,
					 unsorted ? "unsorted" : ngot < nwant ? "fewer" : ngot > nwant ? "more" : "other");
				vd_viol(sig, "ops=%.*s: clone after %d ops delivers [%s]", nops, ops, j, ms);
				nv++;
			}
		}
	}

	if (freeat && clonepass) {
		/* replay every new prefix and free the stream where it stands */
		if (newfrom < nops && !nv) {
			vd_shape("%s/in=midfree", shape0);
		}
		for (int j = newfrom > 0 ? newfrom : 1; j < nops && !nv; j++) {
			build(&lv, pl);
			for (int i = 0; i < j && !lv.err; i++) {
				(void)do_op(lv.m, ops[i]);
			}
			teardown(&lv);
			vd_count("freed_midway", 1);
		}
		if (newfrom < nops && !nv) {
			vd_shape("%s/in=clones", shape0);
		}
	}
	return nv;
}

/* all maximal sequences of one configuration */
static void
run_config(const struct cfg_s *cf)
{
	static struct plan_s pl;
	struct model_s mo, wm;
	int np[MAXM];
	char ops[MAXOPS + 1], prev[MAXOPS + 1] = "";
	long leaves = 0;
	bool nontriv;
	int rc;

	make_plan(&pl, cf);
	vd_desc("%s", pl.desc);
	if (cf->path == P_RR) {
		snprintf(shape0, sizeof(shape0), "%s/nr=%d%s%s", pname[cf->path], cf->nr, cf->rdmask ? "+rdate" : "", cf->xmask ? "+event" : "");
	} else {
		snprintf(shape0, sizeof(shape0), "%s/n=%d", pname[cf->path], cf->n);
	}
	vd_shape("%s/in=model", shape0);
	if ((rc = make_model(&mo, &pl)) < 0) {
		if (rc == -2) {
			vd_viol("harness-parse/constituent", "a constituent did not parse into a task");
		} else {
			/* not an explicit strictly increasing list: somebody else's property */
			vd_count("configs_skipped_constituent_not_a_list", 1);
		}
		return;
	}
	nontriv = mo.m >= 2 && mo.nonempty_cons >= 2;
	memset(st_seen, 0, sizeof(st_seen));
	memset(tr_seen, 0, sizeof(tr_seen));

	/* pass 1: every sequence against the model; pass 2: the same sequences
	 * once more with the clone oracle (and the mid-way frees) -- kept apart so
	 * that a crash in a clone does not hide what pass 1 has to say */
	for (int pass = 0; pass < 2; pass++) {
		long nl = 0;

		/* where a crash or hang happened goes into its signature */
		vd_shape("%s/in=%s", shape0, pass ? "clones" : "ops");
		prev[0] = '\0';
		memset(np, 0, sizeof(np));
		for (int tail = 0;;) {
			int no = 0, common = 0;

			for (int i = 0; i < mo.m; i++) {
				for (int j = 0; j < np[i]; j++) {
					ops[no++] = 'p';
				}
				ops[no++] = 'P';
			}
			ops[no++] = tail & 2 ? 'p' : 'P';
			ops[no++] = tail & 1 ? 'p' : 'P';
			ops[no] = '\0';
			/* the tail may not exceed the allowed number of consecutive peeks either */
			if (!(maxpeek < 2 && tail == 3) && !(maxpeek < 1 && tail)) {
				while (prev[common] && prev[common] == ops[common]) {
					common++;
				}
				wm = mo;
				(void)run_sequence(&pl, &wm, ops, no, nl ? common + 1 : 0, nl, pass);
				nl++;
				if (!pass) {
					vd_sh->evals++;
					++*c_traces;
					vd_sh->nontriv += nontriv;
				}
				vd_beat();
				strcpy(prev, ops);
			}
			/* next leaf: tail is the least significant digit, then np[m-1] .. np[0] */
			if (++tail < 4) {
				continue;
			}
			tail = 0;
			{
				int i = mo.m - 1;
				for (; i >= 0; i--) {
					if (++np[i] <= maxpeek) {
						break;
					}
					np[i] = 0;
				}
				if (i < 0) {
					break;
				}
			}
		}
		if (!pass) {
			leaves = nl;
		}
	}
	vd_count("configs", 1);
	if (nontriv) {
		vd_count("configs_nontrivial", 1);
	}
	{
		char k[40];
		snprintf(k, sizeof(k), "configs_model_size_%d", mo.m);
		vd_count(k, 1);
	}
	if (vd_want_sample() && nontriv) {
		char ms[512];
		model_str(ms, sizeof(ms), &mo, NULL);
		vd_sample("%s; model [%s]; %ld sequences, last one %s", pl.desc, ms, leaves, prev);
	}
	return;
}


static int
popcnt(int x)
{
	return __builtin_popcount((unsigned)x);
}

/* "0,2,7" -> bit set over subset masks; NULL -> all */
static unsigned
maskset(const char *s)
{
	unsigned r = 0U;
	if (s == NULL) {
		return 0xffU;
	}
	for (; *s; s++) {
		if (*s >= '0' && *s <= '7') {
			r |= 1U << (*s - '0');
		}
	}
	return r;
}

static void
enumerate(void)
{
	const char *fam = vd_opt("fam", "plain");
	const int nmin = (int)vd_opt_l("nmin", 1);
	const int nmax = (int)vd_opt_l("nmax", 3);
	const int lmax = (int)vd_opt_l("lmax", 2);
	const char *paths = vd_opt("paths", "vmux,mux,nest,nestr,onefile,files");
	bool usep[NPATHS] = {false};
	struct cfg_s cf;

	maxpeek = (int)vd_opt_l("maxpeek", 2);
	if (maxpeek > 2) {
		maxpeek = 2;
	}
	freeat = (int)vd_opt_l("freeat", 0);
	vd_count_cases = 0;
	c_traces = cnt_slot("traces");
	c_states = cnt_slot("states");
	c_trans = cnt_slot("transitions");

	if (!strcmp(fam, "plain")) {
		for (int p = 0; p < P_RR; p++) {
			const char *f = strstr(paths, pname[p]);
			size_t l = strlen(pname[p]);
			/* whole-word match (nest vs nestr) */
			while (f != NULL && !((f == paths || f[-1] == ',') && (f[l] == ',' || !f[l]))) {
				f = strstr(f + 1, pname[p]);
			}
			usep[p] = f != NULL;
		}
		for (int n = nmin; n <= nmax && n <= 4; n++) {
			/* kinds: (mask, uid), mask-major so that short lists come first */
			int kinds[16][2], nk = 0, idx[4] = {0, 0, 0, 0};
			for (int l = 0; l <= lmax; l++) {
				for (int mask = 0; mask < 1 << NI; mask++) {
					if (popcnt(mask) != l) {
						continue;
					}
					for (int u = 0; u < 2; u++) {
						kinds[nk][0] = mask, kinds[nk][1] = u, nk++;
					}
				}
			}
			for (;;) {
				memset(&cf, 0, sizeof(cf));
				cf.n = n;
				for (int i = 0; i < n; i++) {
					cf.c[i].mask = kinds[idx[i]][0];
					cf.c[i].uid = kinds[idx[i]][1];
				}
				for (int p = 0; p < P_RR; p++) {
					if (!usep[p]) {
						continue;
					}
					if (!vd_next()) {
						continue;
					}
					cf.path = p;
					run_config(&cf);
				}
				if (vd_stop()) {
					return;
				}
				/* odometer, last constituent fastest */
				int i = n - 1;
				for (; i >= 0; i--) {
					if (++idx[i] < nk) {
						break;
					}
					idx[i] = 0;
				}
				if (i < 0) {
					break;
				}
			}
		}
	} else if (!strcmp(fam, "rr")) {
		const int rmin = nmin < 2 ? 2 : nmin, rmax = nmax > 3 ? 3 : nmax;
		/* which RDATE subsets / second-event subsets (0 = none) take part */
		const unsigned rdmasks = maskset(vd_opt("rdmasks", NULL));
		const unsigned xmasks = maskset(vd_opt("xmasks", NULL));
		for (int nr = rmin; nr <= rmax; nr++) {
			int r[3] = {1, 1, 1};
			for (;;) {
				for (int rd = 0; rd < 1 << NI; rd++) {
					if (!(rdmasks >> rd & 1)) {
						continue;
					}
					/* no second event, then every non-empty second event */
					for (int x = 0; x < 1 + 2 * ((1 << NI) - 1); x++) {
						if (!(xmasks >> (x ? 1 + (x - 1) / 2 : 0) & 1)) {
							continue;
						}
						if (!vd_next()) {
							continue;
						}
						memset(&cf, 0, sizeof(cf));
						cf.path = P_RR;
						cf.nr = nr;
						memcpy(cf.rule, r, sizeof(r));
						cf.rdmask = rd;
						if (x) {
							cf.xmask = 1 + (x - 1) / 2;
							cf.xuid = (x - 1) & 1;
						}
						run_config(&cf);
					}
				}
				if (vd_stop()) {
					return;
				}
				int i = nr - 1;
				for (; i >= 0; i--) {
					if (++r[i] <= 7) {
						break;
					}
					r[i] = 1;
				}
				if (i < 0) {
					break;
				}
			}
		}
	} else {
		fprintf(stderr, "unknown fam %s\n", fam);
		_exit(3);
	}
	return;
}

int
main(int argc, char *argv[])
{
	return vd_main(argc, argv, enumerate);
}
