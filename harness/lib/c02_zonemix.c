/* C02 / C03 -- exception and RDATE lists whose values are written in different forms.
 *
 * One event, FREQ=HOURLY;INTERVAL=4;COUNT=6 from 2020-02-29T08:00:00Z (instants 08 12 16 20 00 04),
 * all-UTC base.  Every subset of the six instants (plus two instants that are no occurrence) is given
 * as EXDATE (mode=exdate) or, without the RRULE, as RDATE (mode=rdate), and EVERY assignment of a written
 * form to each value is tried: UTC ("...Z"), or local time of a fixed-offset zone (Asia/Tokyo +9,
 * America/Phoenix -7, Asia/Kolkata +5:30) via the TZID parameter, each value on a line of its own
 * (a TZID applies to a whole line).  Raw local values sort differently from their UTC instants, so a
 * list that is ordered before it is normalised comes out wrong.
 *   exdate: occurrences = the six instants minus the excepted ones (C02)
 *   rdate : occurrences = the listed instants (an event without RRULE has no DTSTART-anchored rule
 *           instances; the project's own tests pin that reading), non-decreasing (C03 order, C02 union)
 *   duprdate, paramorder: see enumerate_dup() and enumerate_paramorder() (line parameters in every order)
 */
#include "vdrv.h"
#include "ref/icalio.h"
#include "ref/rfc5545.h"

struct form_s {
	const char *name;
	const char *tzid;	/* NULL: UTC with Z */
	int offs;		/* seconds east */
};
static const struct form_s forms[] = {
	{"utc", NULL, 0},
	{"tokyo", "Asia/Tokyo", 9 * 3600},
	{"phoenix", "America/Phoenix", -7 * 3600},
	{"kolkata", "Asia/Kolkata", 19800},
};
#define NFORMS 4

static int64_t base;	/* 2020-02-29T08:00:00Z */

static size_t
put_value(char *buf, size_t bsz, const char *prop, int64_t t, const struct form_s *f)
{
	rf_dt d = rf_from_secs(t + f->offs, 0);
	if (f->tzid == NULL) {
		return (size_t)snprintf(buf, bsz, "%s:%04d%02d%02dT%02d%02d%02dZ\n", prop, d.y, d.m, d.d, d.H, d.M, d.S);
	}
	return (size_t)snprintf(buf, bsz, "%s;TZID=%s:%04d%02d%02dT%02d%02d%02d\n", prop, f->tzid, d.y, d.m, d.d, d.H, d.M, d.S);
}

static int64_t
inst_secs(echs_instant_t i)
{
	rf_dt t = {i.y, i.m, i.d, i.H, i.M, i.S, 0};
	return rf_secs(t);
}

/* mode=duprdate: the event keeps its RRULE; three candidate instants (10:00Z and 02:00Z next day, which are no
 * rule instance, and 12:00Z, which is one) are each listed 0, 1 or 2 times as RDATE, every copy in every written
 * form (own line each, or all copies of all instants in one comma list when all are UTC), and every subset of the
 * three is excepted by EXDATE.  Delivered must be (rule instances u listed instants) minus the excepted ones, each
 * once: the recurrence set is a set. */
static void
enumerate_dup(void)
{
	const int nforms = (int)vd_opt_l("forms", 2);
	int64_t cand[3], inst[6];
	rf_dt b = {2020, 2, 29, 8, 0, 0, 0};

	base = rf_secs(b);
	for (int i = 0; i < 6; i++) inst[i] = base + (int64_t)i * 4 * 3600;
	cand[0] = base + 2 * 3600, cand[1] = base + 4 * 3600, cand[2] = base + 18 * 3600;
	vd_count_cases = 0;
	for (int mult = 1; mult < 27; mult++) {
		const int mu[3] = {mult % 3, mult / 3 % 3, mult / 9};
		const int ncopies = mu[0] + mu[1] + mu[2];
		unsigned nass = 1;
		for (int i = 0; i < ncopies; i++) nass *= (unsigned)nforms;
		for (unsigned ex = 0; ex < 8; ex++) {
			if (!vd_next()) continue;
			vd_shape("duprdate/copies=%d%d%d/ex=%u", mu[0], mu[1], mu[2], ex);
			for (unsigned a = 0; a <= nass; a++) {
				/* a == nass: one comma list, all UTC */
				char body[2048], text[2560];
				size_t o = 0;
				unsigned aa = a;
				int64_t want[16], got[32];
				int nw = 0, ng = 0, hasdup = mu[0] > 1 || mu[1] > 1 || mu[2] > 1;

				o += (size_t)snprintf(body + o, sizeof(body) - o, "DTSTART:20200229T080000Z\nRRULE:FREQ=HOURLY;INTERVAL=4;COUNT=6\n");
				if (a == nass) {
					int first = 1;
					for (int c = 0; c < 3; c++) for (int k = 0; k < mu[c]; k++) {
						rf_dt d = rf_from_secs(cand[c], 0);
						o += (size_t)snprintf(body + o, sizeof(body) - o, "%s%04d%02d%02dT%02d%02d%02dZ", first ? "RDATE:" : ",", d.y, d.m, d.d, d.H, d.M, d.S);
						first = 0;
					}
					o += (size_t)snprintf(body + o, sizeof(body) - o, "\n");
				} else {
					for (int c = 0; c < 3; c++) for (int k = 0; k < mu[c]; k++, aa /= (unsigned)nforms) {
						o += put_value(body + o, sizeof(body) - o, "RDATE", cand[c], &forms[aa % (unsigned)nforms]);
					}
				}
				for (int c = 0; c < 3; c++) if (ex >> c & 1U) o += put_value(body + o, sizeof(body) - o, "EXDATE", cand[c], &forms[0]);
				ical_wrap(text, sizeof(text), "duprdate@verif", body);
				vd_sh->evals++;
				vd_desc("%s", body);
				for (char *q = vd_sh->desc; *q; q++) if (*q == '\n') *q = ' ';
				for (int i = 0; i < 6; i++) {
					int x = 0;
					for (int c = 0; c < 3; c++) x |= (ex >> c & 1U) && cand[c] == inst[i];
					if (!x) want[nw++] = inst[i];
				}
				for (int c = 0; c < 3; c++) {
					int have = 0;
					if (!mu[c] || (ex >> c & 1U)) continue;
					for (int j = 0; j < nw; j++) have |= want[j] == cand[c];
					if (!have) want[nw++] = cand[c];
				}
				echs_task_t t = ical_task1(text);
				if (t == NULL || t->strm == NULL) {
					vd_viol("rejected/duprdate", "no task/stream for a well-formed event");
					if (t) free_echs_task(t);
					continue;
				}
				for (; ng < 32; ng++) {
					echs_event_t e = echs_evstrm_pop(t->strm);
					if (echs_nul_event_p(e)) break;
					got[ng] = inst_secs(e.from);
				}
				free_echs_task(t);
				if (hasdup && ex) vd_nontrivial();
				if (vd_want_sample() && hasdup && ex) vd_sample("RDATE copies %d/%d/%d of {10Z*,12Z,02Z*}, EXDATE subset %#x -> %d occurrences", mu[0], mu[1], mu[2], ex, ng);
				const char *lay = a == nass ? "list" : "lines";
				char sig[96];
				for (int j = 0; j < ng; j++) {
					int f = 0;
					for (int i = 0; i < nw; i++) f |= got[j] == want[i];
					if (!f) {
						int named = 0;
						for (int c = 0; c < 3; c++) named |= (ex >> c & 1U) && cand[c] == got[j];
						snprintf(sig, sizeof(sig), "%s/duprdate/%s/%s", named ? "not-excluded" : "spurious", lay, hasdup ? "dups" : "nodups");
						vd_viol(sig, "occurrence at +%lldh is delivered but %s", (long long)((got[j] - base) / 3600), named ? "is named by an EXDATE" : "is neither a rule instance nor listed");
						break;
					}
				}
				for (int i = 0; i < nw; i++) {
					int f = 0;
					for (int j = 0; j < ng; j++) f |= got[j] == want[i];
					if (!f) {
						snprintf(sig, sizeof(sig), "missing/duprdate/%s/%s", lay, hasdup ? "dups" : "nodups");
						vd_viol(sig, "expected occurrence at +%lldh is not delivered", (long long)((want[i] - base) / 3600));
						break;
					}
				}
				for (int j = 1; j < ng; j++) {
					if (got[j] == got[j - 1]) {
						int isrule = 0;
						for (int i = 0; i < 6; i++) isrule |= inst[i] == got[j];
						snprintf(sig, sizeof(sig), "twice/duprdate/%s/%s", lay, isrule ? "rule-instance" : "rdate-only");
						vd_viol(sig, "the occurrence at +%lldh is delivered twice", (long long)((got[j] - base) / 3600));
						break;
					} else if (got[j] < got[j - 1]) {
						snprintf(sig, sizeof(sig), "order/duprdate/%s", lay);
						vd_viol(sig, "occurrence %d lies before occurrence %d", j, j - 1);
						break;
					}
				}
			}
		}
	}
}

/* mode=paramorder: the parameters of an EXDATE/RDATE line in every order.  RFC 5545 puts no order on parameters, and
 * VALUE=DATE-TIME (the default value type, spelt out) changes nothing.  The event keeps its RRULE.  Every subset of
 * up to maxlist instants (EXDATE: the universe of mode=exdate; RDATE: 10:00Z and 02:00Z next day, which are no rule
 * instance, and 12:00Z, which is one) with EVERY assignment of a written form to each value, the forms being
 *   UTC:  PROP:...Z | PROP;VALUE=DATE-TIME:...Z
 *   each of the three zones:  PROP;TZID=z:local | PROP;VALUE=DATE-TIME;TZID=z:local | PROP;TZID=z;VALUE=DATE-TIME:local
 * one line per value; and, for two or more values in one form, as one comma list.
 * Delivered must be the rule instances minus the excepted ones (EXDATE) / united with the listed ones (RDATE), as
 * sets, in non-decreasing order; i.e. every spelling names the instants the TZID-only spelling names. */
struct pform_s {
	int zone;	/* index into forms[] */
	int spell;	/* 0 plain, 1 VALUE first, 2 VALUE last */
	const char *name;
};
static const struct pform_s pforms[] = {
	{0, 0, "utc"}, {0, 1, "V:utc"},
	{1, 0, "tokyo"}, {1, 1, "V;tokyo"}, {1, 2, "tokyo;V"},
	{2, 0, "phoenix"}, {2, 1, "V;phoenix"}, {2, 2, "phoenix;V"},
	{3, 0, "kolkata"}, {3, 1, "V;kolkata"}, {3, 2, "kolkata;V"},
};
#define NPFORMS	11

static size_t
put_head(char *buf, size_t bsz, const char *prop, const struct pform_s *pf)
{
	const struct form_s *f = &forms[pf->zone];
	static const char v[] = "VALUE=DATE-TIME";
	if (f->tzid == NULL) {
		return (size_t)snprintf(buf, bsz, "%s%s%s:", prop, pf->spell ? ";" : "", pf->spell ? v : "");
	} else if (pf->spell == 1) {
		return (size_t)snprintf(buf, bsz, "%s;%s;TZID=%s:", prop, v, f->tzid);
	} else if (pf->spell == 2) {
		return (size_t)snprintf(buf, bsz, "%s;TZID=%s;%s:", prop, f->tzid, v);
	}
	return (size_t)snprintf(buf, bsz, "%s;TZID=%s:", prop, f->tzid);
}

static size_t
put_raw(char *buf, size_t bsz, int64_t t, const struct pform_s *pf)
{
	const struct form_s *f = &forms[pf->zone];
	rf_dt d = rf_from_secs(t + f->offs, 0);
	return (size_t)snprintf(buf, bsz, "%04d%02d%02dT%02d%02d%02d%s", d.y, d.m, d.d, d.H, d.M, d.S, f->tzid ? "" : "Z");
}

static void
enumerate_paramorder(void)
{
	const int maxlist = (int)vd_opt_l("maxlist", 2);
	int64_t inst[6], uni[2][8];
	const int nuni[2] = {8, 3};
	rf_dt b = {2020, 2, 29, 8, 0, 0, 0};

	base = rf_secs(b);
	for (int i = 0; i < 6; i++) inst[i] = uni[0][i] = base + (int64_t)i * 4 * 3600;
	uni[0][6] = base + 2 * 3600, uni[0][7] = base + 18 * 3600;
	uni[1][0] = base + 2 * 3600, uni[1][1] = base + 18 * 3600, uni[1][2] = base + 4 * 3600;
	vd_count_cases = 0;
	for (int rdate = 0; rdate < 2; rdate++) {
		const char *prop = rdate ? "RDATE" : "EXDATE";
		for (unsigned m = 1; m < (1U << nuni[rdate]); m++) {
			int idx[8], k = 0;
			unsigned nass = 1;
			for (int i = 0; i < nuni[rdate]; i++) if (m >> i & 1U) idx[k++] = i;
			if (k > maxlist) continue;
			for (int i = 0; i < k; i++) nass *= NPFORMS;
			if (!vd_next()) continue;
			vd_shape("paramorder/%s/n=%d", rdate ? "rdate" : "exdate", k);
			/* a < nass: one line per value; a >= nass (k >= 2): one comma list in form a - nass */
			for (unsigned a = 0; a < nass + (k > 1 ? NPFORMS : 0U); a++) {
				char body[1024], text[1536], fs[96] = "";
				size_t o = 0;
				unsigned aa = a;
				int has[3] = {0, 0, 0}, utcv = 0, zoned = 0;
				int64_t want[12], got[20];
				int nw = 0, ng = 0;
				char sig[128];

				o += (size_t)snprintf(body + o, sizeof(body) - o, "DTSTART:20200229T080000Z\nRRULE:FREQ=HOURLY;INTERVAL=4;COUNT=6\n");
				if (a >= nass) {
					const struct pform_s *pf = &pforms[a - nass];
					o += put_head(body + o, sizeof(body) - o, prop, pf);
					for (int i = 0; i < k; i++) {
						if (i) o += (size_t)snprintf(body + o, sizeof(body) - o, ",");
						o += put_raw(body + o, sizeof(body) - o, uni[rdate][idx[i]], pf);
					}
					o += (size_t)snprintf(body + o, sizeof(body) - o, "\n");
					snprintf(fs, sizeof(fs), "list:%s", pf->name);
					if (pf->zone) has[pf->spell] = 1, zoned = 1; else utcv |= pf->spell;
				} else {
					for (int i = 0; i < k; i++, aa /= NPFORMS) {
						const struct pform_s *pf = &pforms[aa % NPFORMS];
						o += put_head(body + o, sizeof(body) - o, prop, pf);
						o += put_raw(body + o, sizeof(body) - o, uni[rdate][idx[i]], pf);
						o += (size_t)snprintf(body + o, sizeof(body) - o, "\n");
						snprintf(fs + strlen(fs), sizeof(fs) - strlen(fs), "%s%s", i ? "," : "", pf->name);
						if (pf->zone) has[pf->spell] = 1, zoned = 1; else utcv |= pf->spell;
					}
				}
				ical_wrap(text, sizeof(text), "paramorder@verif", body);
				vd_sh->evals++;
				vd_desc("%s subset %#x forms [%s]: %s", prop, m, fs, body);
				for (char *q = vd_sh->desc; *q; q++) if (*q == '\n') *q = ' ';
				for (int i = 0; i < 6; i++) {
					int ex = 0;
					for (int j = 0; j < k && !rdate; j++) ex |= uni[0][idx[j]] == inst[i];
					if (!ex) want[nw++] = inst[i];
				}
				for (int j = 0; j < k && rdate; j++) {
					int have = 0;
					for (int i = 0; i < nw; i++) have |= want[i] == uni[1][idx[j]];
					if (!have) want[nw++] = uni[1][idx[j]];
				}
				/* the spelling class: what the most demanding line looks like */
				const char *sk = has[1] ? "value-then-tzid" : has[2] ? "tzid-then-value" : utcv ? "value-utc" : zoned ? "tzid-only" : "utc";
				echs_task_t t = ical_task1(text);
				if (t == NULL || t->strm == NULL) {
					snprintf(sig, sizeof(sig), "rejected/paramorder/%s/%s", rdate ? "rdate" : "exdate", sk);
					vd_viol(sig, "no task/stream for a well-formed event");
					if (t) free_echs_task(t);
					continue;
				}
				for (; ng < 20; ng++) {
					echs_event_t e = echs_evstrm_pop(t->strm);
					if (echs_nul_event_p(e)) break;
					got[ng] = inst_secs(e.from);
				}
				free_echs_task(t);
				if (has[1] || has[2]) vd_nontrivial();
				if (vd_want_sample() && (has[1] || has[2])) vd_sample("%s forms [%s] over subset %#x -> %d occurrences", prop, fs, m, ng);
				for (int i = 1; i < ng; i++) {
					if (got[i] < got[i - 1]) {
						snprintf(sig, sizeof(sig), "order/paramorder/%s/%s", rdate ? "rdate" : "exdate", sk);
						vd_viol(sig, "occurrence %d lies before occurrence %d", i, i - 1);
						break;
					}
				}
				for (int i = 0; i < nw; i++) {
					int f = 0;
					for (int j = 0; j < ng; j++) f |= got[j] == want[i];
					if (!f) {
						snprintf(sig, sizeof(sig), "%s/paramorder/%s", rdate ? "rdate-missing" : "wrongly-dropped", sk);
						vd_viol(sig, "expected occurrence at +%lldh is not delivered (%d delivered, %d expected)", (long long)((want[i] - base) / 3600), ng, nw);
						break;
					}
				}
				for (int j = 0; j < ng; j++) {
					int f = 0;
					for (int i = 0; i < nw; i++) f |= got[j] == want[i];
					if (!f) {
						snprintf(sig, sizeof(sig), "%s/paramorder/%s", rdate ? "spurious" : "not-excluded", sk);
						vd_viol(sig, "occurrence at +%lldh is delivered but %s", (long long)((got[j] - base) / 3600), rdate ? "was never listed" : "is named by an EXDATE");
						break;
					}
				}
			}
		}
	}
}

static void
enumerate(void)
{
	if (!strcmp(vd_opt("mode", "exdate"), "duprdate")) {
		enumerate_dup();
		return;
	}
	if (!strcmp(vd_opt("mode", "exdate"), "paramorder")) {
		enumerate_paramorder();
		return;
	}
	const int rdate = !strcmp(vd_opt("mode", "exdate"), "rdate");
	const int nforms = (int)vd_opt_l("forms", NFORMS);
	/* the universe: the six occurrences plus two instants in between */
	int64_t uni[8];
	rf_dt b = {2020, 2, 29, 8, 0, 0, 0};

	base = rf_secs(b);
	for (int i = 0; i < 6; i++) uni[i] = base + (int64_t)i * 4 * 3600;
	uni[6] = base + 2 * 3600;		/* 10:00Z, no occurrence */
	uni[7] = base + 18 * 3600;		/* 02:00Z next day, no occurrence */
	vd_count_cases = 0;

	for (unsigned m = 1; m < 256; m++) {
		int idx[8], k = 0;
		for (int i = 0; i < 8; i++) if (m >> i & 1U) idx[k++] = i;
		if (k > (int)vd_opt_l("maxlist", 4)) continue;
		/* all form assignments */
		unsigned nass = 1;
		for (int i = 0; i < k; i++) nass *= (unsigned)nforms;
		if (!vd_next()) continue;
		vd_shape("zonemix/%s/n=%d", rdate ? "rdate" : "exdate", k);
		for (unsigned a = 0; a < nass; a++) {
			char body[1024], text[1536], fs[64] = "";
			size_t o = 0;
			unsigned aa = a;
			int mixed = 0, f0 = -1;

			o += (size_t)snprintf(body + o, sizeof(body) - o, "DTSTART:20200229T080000Z\n");
			if (!rdate) o += (size_t)snprintf(body + o, sizeof(body) - o, "RRULE:FREQ=HOURLY;INTERVAL=4;COUNT=6\n");
			for (int i = 0; i < k; i++, aa /= (unsigned)nforms) {
				const struct form_s *f = &forms[aa % (unsigned)nforms];
				o += put_value(body + o, sizeof(body) - o, rdate ? "RDATE" : "EXDATE", uni[idx[i]], f);
				snprintf(fs + strlen(fs), sizeof(fs) - strlen(fs), "%s%s", i ? "," : "", f->name);
				if (f0 < 0) f0 = (int)(aa % (unsigned)nforms); else mixed |= f0 != (int)(aa % (unsigned)nforms);
			}
			ical_wrap(text, sizeof(text), "zonemix@verif", body);
			vd_sh->evals++;
			vd_desc("%s subset %#x forms [%s]: %s", rdate ? "RDATE" : "EXDATE", m, fs, body);
			/* expected */
			int64_t want[8];
			int nw = 0;
			if (rdate) {
				for (int i = 0; i < k; i++) want[nw++] = uni[idx[i]];
				for (int i = 1; i < nw; i++) for (int j = i; j > 0 && want[j - 1] > want[j]; j--) { int64_t x = want[j]; want[j] = want[j - 1]; want[j - 1] = x; }
			} else {
				for (int i = 0; i < 6; i++) {
					int ex = 0;
					for (int j = 0; j < k; j++) ex |= uni[idx[j]] == uni[i];
					if (!ex) want[nw++] = uni[i];
				}
			}
			echs_task_t t = ical_task1(text);
			if (t == NULL || t->strm == NULL) {
				if (nw) vd_viol(rdate ? "rejected/rdate" : "rejected/exdate", "no task/stream for a well-formed event");
				if (t) free_echs_task(t);
				continue;
			}
			int64_t got[16];
			int ng = 0;
			for (; ng < 16; ng++) {
				echs_event_t e = echs_evstrm_pop(t->strm);
				if (echs_nul_event_p(e)) break;
				got[ng] = inst_secs(e.from);
			}
			free_echs_task(t);
			if (mixed) vd_nontrivial();
			if (vd_want_sample() && mixed) vd_sample("%s forms [%s] over subset %#x of {08,12,16,20,00,04,10*,02*}Z -> %d occurrences", rdate ? "RDATE" : "EXDATE", fs, m, nw);
			char sig[96];
			const char *fk = mixed ? "mixed-forms" : f0 ? "one-zone" : "utc";
			for (int i = 1; i < ng; i++) {
				if (got[i] < got[i - 1]) {
					snprintf(sig, sizeof(sig), "order/%s/%s/n=%d", rdate ? "rdate" : "exdate", fk, k);
					vd_viol(sig, "occurrence %d lies before occurrence %d", i, i - 1);
					break;
				}
			}
			/* compare as sets (a duplicate of DTSTART among the RDATEs is excluded above) */
			for (int i = 0; i < nw; i++) {
				int f = 0;
				for (int j = 0; j < ng; j++) f |= got[j] == want[i];
				if (!f) {
					snprintf(sig, sizeof(sig), "%s/%s/n=%d", rdate ? "rdate-missing" : "wrongly-dropped", fk, k);
					vd_viol(sig, "expected occurrence at +%lldh is not delivered (%d delivered, %d expected)", (long long)((want[i] - base) / 3600), ng, nw);
					break;
				}
			}
			for (int j = 0; j < ng; j++) {
				int f = 0;
				for (int i = 0; i < nw; i++) f |= got[j] == want[i];
				if (!f) {
					snprintf(sig, sizeof(sig), "%s/%s/n=%d", rdate ? "spurious" : "not-excluded", fk, k);
					vd_viol(sig, "occurrence at +%lldh is delivered but %s", (long long)((got[j] - base) / 3600), rdate ? "was never listed" : "is named by an EXDATE");
					break;
				}
			}
		}
	}
}

int
main(int argc, char *argv[])
{
	return vd_main(argc, argv, enumerate);
}
