/* C05 -- the three mail flags are read as written, whatever their order and whatever the other two say.
 *
 * README: X-ECHS-MAIL-OUT / X-ECHS-MAIL-ERR "if set to non-0" include stdout / stderr in the mail, X-ECHS-MAIL-RUN
 * "if set to non-0" sends the status mail and "is implied when X-ECHS-MAIL-OUT or X-ECHS-MAIL-ERR is set".
 *
 * Exhaustive family: every subset of the three lines x every order of the lines present x every assignment of the
 * values {0, 1, 2, true} to them x four surroundings
 *   head    the mail lines directly behind UID/SUMMARY, schedule after them
 *   tail    the mail lines last in the event, behind the schedule
 *   spread  one mail line each before, between and after other lines (ATTENDEE, X-ECHS-OFILE, schedule), under the
 *           five documented calendar-level defaults
 *   full    all 13 other event-level fields of the README table present, mail lines spread among them
 * Oracle (README read literally): mail-out is on iff its line is present with a value other than 0, the same for
 * mail-err; mail-on-run is judged as the effective flag (its own line non-0, or implied by one of the other two).
 * The task so read is written in both forms (echsq, checkpoint) and read again: the flags must be those of the task
 * as read.
 * Values spelt f/false/no are left out: "non-0" says nothing certain about them.
 */
#include "vdrv.h"
#include "ref/icalio.h"
#include "ref/c05_common.h"

static const char *const flagname[3] = {"X-ECHS-MAIL-OUT", "X-ECHS-MAIL-ERR", "X-ECHS-MAIL-RUN"};
static const char *const flagshort[3] = {"MAIL-OUT", "MAIL-ERR", "MAIL-RUN"};
static const char *const values[] = {"0", "1", "2", "true"};
#define NV	4
static const char *const ctxname[] = {"head", "tail", "spread", "full"};
#define NCTX	4
static const int perms[6][3] = {{0, 1, 2}, {0, 2, 1}, {1, 0, 2}, {1, 2, 0}, {2, 0, 1}, {2, 1, 0}};
static const char sched[] = "DTSTART:20240101T060000Z\nRRULE:FREQ=DAILY;COUNT=10\n";

/* the other event-level fields of the README table, in three portions */
static const int other[3][5] = {
	{F_ORG, F_ATT1, F_ATT2, F_LOC, -1},
	{F_SHELL, F_IFILE, F_OFILE, F_EFILE, -1},
	{F_MAXSIM, F_UMASK, F_SUID, F_SGID, -1},
};

static size_t
portion(char *buf, size_t bsz, int i)
{
	size_t o = 0;
	for (const int *f = other[i]; *f >= 0; f++) {
		o += (size_t)snprintf(buf + o, bsz - o, "%s:%s\n", c05_fname[*f], c05_fval[*f][0]);
	}
	return o;
}

/* LINES: up to three "NAME:VALUE\n" lines in the order they are to appear */
static size_t
build(char *buf, size_t bsz, int ctx, char lines[3][40], int nl)
{
	size_t o = 0;
#define ADD(...)	(o += (size_t)snprintf(buf + o, bsz - o, __VA_ARGS__))
#define LINE(i)		((i) < nl ? lines[i] : "")
	ADD("BEGIN:VCALENDAR\nVERSION:2.0\n");
	if (ctx == 2) {
		for (int i = 0; i < 5; i++) ADD("%s:%s\n", c05_calname[i], c05_calval[0][i]);
	}
	ADD("BEGIN:VEVENT\nUID:mailflags@example.com\nSUMMARY:/usr/local/bin/report\n");
	switch (ctx) {
	case 0:
		ADD("%s%s%s%s", LINE(0), LINE(1), LINE(2), sched);
		break;
	case 1:
		ADD("%s%s%s%s", sched, LINE(0), LINE(1), LINE(2));
		break;
	case 2:
		ADD("%sATTENDEE:mailto:ops@example.com\n%sX-ECHS-OFILE:/tmp/report.out\n%s%s", LINE(0), LINE(1), sched, LINE(2));
		break;
	default:
		o += portion(buf + o, bsz - o, 0);
		ADD("%s", LINE(0));
		o += portion(buf + o, bsz - o, 1);
		ADD("%s%s", LINE(1), sched);
		o += portion(buf + o, bsz - o, 2);
		ADD("%s", LINE(2));
		break;
	}
	ADD("END:VEVENT\nEND:VCALENDAR\n");
#undef ADD
#undef LINE
	return o;
}

static void
judge(const char *phase, const char *against, echs_task_t t, const int want[3], int nl, const char *order)
{
	const int got[3] = {(int)t->mailout, (int)t->mailerr, (int)(t->mailrun | t->mailout | t->mailerr)};
	for (int f = 0; f < 3; f++) {
		if (got[f] != want[f]) {
			char sig[120];
			snprintf(sig, sizeof(sig), "mailflags/%s/%s/%s/lines=%d", flagshort[f], want[f] ? "lost" : "spurious", phase, nl);
			vd_viol(sig, "%s: %s is %s, %s says %s (lines in the order %s); task has mailout=%u mailerr=%u mailrun=%u", phase, flagshort[f],
				got[f] ? "on" : "off", against, want[f] ? "on" : "off", order, (unsigned)t->mailout, (unsigned)t->mailerr, (unsigned)t->mailrun);
		}
	}
}

static void
enumerate(void)
{
	static char text[4096], back[8192];

	for (int ctx = 0; ctx < NCTX; ctx++)
	for (unsigned mask = 0; mask < 8U; mask++) {
		const int nl = (int)((mask & 1U) + (mask >> 1 & 1U) + (mask >> 2 & 1U));
		int nval = 1;
		for (int i = 0; i < nl; i++) nval *= NV;
		for (int p = 0; p < 6; p++) {
			int ord[3], no = 0, dup = 0;
			/* the order of the lines present; permutations that differ only in absent lines are one case */
			for (int i = 0; i < 3; i++) {
				if (mask >> perms[p][i] & 1U) ord[no++] = perms[p][i];
			}
			for (int q = 0; q < p && !dup; q++) {
				int o2[3], n2 = 0;
				for (int i = 0; i < 3; i++) {
					if (mask >> perms[q][i] & 1U) o2[n2++] = perms[q][i];
				}
				dup = !memcmp(ord, o2, sizeof(int) * (size_t)no);
			}
			if (dup) continue;
			for (int va = 0; va < nval; va++) {
				char lines[3][40], order[120] = "";
				int want[3] = {0, 0, 0};
				echs_task_t t;

				if (!vd_next()) continue;
				for (int i = 0, x = va; i < no; i++, x /= NV) {
					const char *v = values[x % NV];
					snprintf(lines[i], sizeof(lines[i]), "%s:%s\n", flagname[ord[i]], v);
					snprintf(order + strlen(order), sizeof(order) - strlen(order), "%s%s:%s", i ? " " : "", flagname[ord[i]], v);
					want[ord[i]] = strcmp(v, "0") != 0;
				}
				want[2] |= want[0] | want[1];
				build(text, sizeof(text), ctx, lines, no);
				vd_desc("%s; surroundings %s", no ? order : "(no mail line)", ctxname[ctx]);
				vd_shape("mailflags/%s/lines=%d", ctxname[ctx], no);
				if (no >= 2) vd_nontrivial();
				if ((t = ical_task1(text)) == NULL) {
					vd_viol("mailflags/precond/unread", "the event does not read");
					continue;
				}
				judge("read", "the text", t, want, no, order);
				for (int form = 0; form < 2; form++) {
					ssize_t bn = c05_seria(back, sizeof(back), &t, 1, form);
					echs_task_t t2 = bn > 0 ? ical_task1(back) : NULL;
					if (t2 == NULL) {
						vd_viol(form ? "mailflags/rejected/checkpoint-form" : "mailflags/rejected/echsq-form", "the written task does not read back");
						continue;
					}
					{
						/* judged against the task as read, so that a misreading is reported once */
						const int asread[3] = {(int)t->mailout, (int)t->mailerr, (int)(t->mailrun | t->mailout | t->mailerr)};
						judge(form ? "written-checkpoint-form-and-read" : "written-echsq-form-and-read", "the task that was written", t2, asread, no, order);
					}
					free_echs_task(t2);
				}
				if (vd_want_sample() && no == 3) vd_sample("%s (%s): out=%d err=%d run=%d as read and after both written forms", order, ctxname[ctx], want[0], want[1], want[2]);
				free_echs_task(t);
			}
		}
	}
}

int
main(int argc, char *argv[])
{
	return vd_main(argc, argv, enumerate);
}
