/* C03 -- merging constituents whose occurrences are WRITTEN differently: all-day dates, UTC date-times at the
 * edges of the day, and local times of three zones (two of them with a DST switch inside the window).
 *
 * Menu of 8 constituents (one event each, own UID, 5 occurrences around 2020-03-28 .. 2020-04-01; Europe/Berlin
 * switches to DST on 03-29).  Every subset of 2..maxn constituents is merged by every path (vmux of the separate
 * streams in menu order and in reverse; all events in one file) and read to its end by pops, and again by
 * peek-pop pairs.  Every run happens in a freshly forked image, and so does the reading of each constituent
 * alone, so that nothing one zone or stream leaves behind in the process (zone cache, interned strings) is shared
 * between the reference and the merge.
 *
 * Oracle: starts are non-decreasing, where an all-day occurrence starts at 00:00:00 of its day (a tie between an
 * all-day occurrence and a 00:00:00Z one may come either way); the delivered multiset of (UID, start) is the
 * union of what the constituents deliver alone; a peek shows what the next pop returns.
 */
#include "vdrv.h"
#include <sys/wait.h>
#include "ref/icalio.h"
#include "ref/rfc5545.h"
#include "evstrm.h"

struct cons_s {
	const char *name;
	const char *uid;
	const char *lines;
};
static const struct cons_s menu[] = {
	{"allday-daily", "c-allday", "DTSTART;VALUE=DATE:20200328\nRRULE:FREQ=DAILY;COUNT=5\n"},
	{"utc-midnight", "c-utc0", "DTSTART:20200328T000000Z\nRRULE:FREQ=DAILY;COUNT=5\n"},
	{"utc-noon", "c-utc12", "DTSTART:20200328T120000Z\nRRULE:FREQ=DAILY;COUNT=5\n"},
	{"utc-last-second", "c-utc23", "DTSTART:20200328T235959Z\nRRULE:FREQ=DAILY;COUNT=5\n"},
	{"berlin-0130", "c-berlin", "DTSTART;TZID=Europe/Berlin:20200328T013000\nRRULE:FREQ=DAILY;COUNT=5\n"},
	{"newyork-2000", "c-newyork", "DTSTART;TZID=America/New_York:20200327T200000\nRRULE:FREQ=DAILY;COUNT=5\n"},
	{"allday-weekly", "c-weekly", "DTSTART;VALUE=DATE:20200328\nRRULE:FREQ=WEEKLY;BYDAY=SA,SU,MO;COUNT=5\n"},
	{"tokyo-0900", "c-tokyo", "DTSTART;TZID=Asia/Tokyo:20200328T090000\nRRULE:FREQ=DAILY;COUNT=5\n"},
};
#define NMENU	((int)(sizeof(menu) / sizeof(*menu)))
#define MAXOCC	64

struct occ_s {
	int64_t key;	/* seconds, an all-day occurrence at 00:00:00 of its day */
	int allday;
	int who;	/* menu index */
};

struct shm_s {
	int n;
	struct occ_s o[MAXOCC];
	int peek_mismatch;
	int unknown_uid;
};
static struct shm_s *shm;

static int64_t
okey(echs_instant_t i, int *allday)
{
	*allday = echs_instant_all_day_p(i);
	if (*allday) {
		rf_dt t = {i.y, i.m, i.d, 0, 0, 0, 0};
		return rf_secs(t);
	}
	rf_dt t = {i.y, i.m, i.d, i.H, i.M, i.S, 0};
	return rf_secs(t);
}

static size_t
cons_text(char *buf, size_t bsz, int k)
{
	return (size_t)snprintf(buf, bsz, "BEGIN:VEVENT\nUID:%s\nSUMMARY:true\n%sEND:VEVENT\n", menu[k].uid, menu[k].lines);
}

static int
who_of(echs_task_t const *t, int nt, const int *idx, echs_event_t e)
{
	for (int i = 0; i < nt; i++) {
		if (t[i] && t[i]->oid == e.oid) return idx[i];
	}
	return -1;
}

/* in a child: build the merge of the constituents IDX[0..n) by PATH, drain it by STYLE, leave the result in shm */
static void
drain(const int *idx, int n, int path, int style)
{
	char text[4096];
	echs_task_t t[8] = {NULL};
	echs_evstrm_t s[8], m = NULL;
	int order[8], nt = 0;
	size_t o;

	memset(shm, 0, sizeof(*shm));
	if (path == 2) {
		/* one file */
		o = (size_t)snprintf(text, sizeof(text), "BEGIN:VCALENDAR\nVERSION:2.0\n");
		for (int i = 0; i < n; i++) o += cons_text(text + o, sizeof(text) - o, idx[i]);
		o += (size_t)snprintf(text + o, sizeof(text) - o, "END:VCALENDAR\n");
		nt = (int)ical_tasks(t, 8, text, o);
		for (int i = 0; i < nt; i++) order[i] = idx[i];
	} else {
		for (int i = 0; i < n; i++) {
			const int k = path == 0 ? idx[i] : idx[n - 1 - i];
			o = (size_t)snprintf(text, sizeof(text), "BEGIN:VCALENDAR\nVERSION:2.0\n");
			o += cons_text(text + o, sizeof(text) - o, k);
			o += (size_t)snprintf(text + o, sizeof(text) - o, "END:VCALENDAR\n");
			if (ical_tasks(&t[nt], 1, text, o) == 1) {
				order[nt++] = k;
			}
		}
	}
	if (nt != n) {
		shm->n = -1;
		return;
	}
	for (int i = 0; i < nt; i++) s[i] = t[i]->strm;
	m = nt == 1 ? s[0] : echs_evstrm_vmux(s, (size_t)nt);
	if (m == NULL) {
		shm->n = -2;
		return;
	}
	while (shm->n < MAXOCC) {
		echs_event_t pk, e;
		if (style == 1) {
			pk = echs_evstrm_next(m);
		}
		e = echs_evstrm_pop(m);
		if (style == 1 && (pk.from.u != e.from.u || pk.oid != e.oid)) {
			shm->peek_mismatch++;
		}
		if (echs_nul_event_p(e)) break;
		shm->o[shm->n].key = okey(e.from, &shm->o[shm->n].allday);
		shm->o[shm->n].who = who_of(t, nt, order, e);
		if (shm->o[shm->n].who < 0) shm->unknown_uid++;
		shm->n++;
	}
}

static int
in_child(const int *idx, int n, int path, int style)
{
	pid_t c;
	int st;
	fflush(stdout);
	if ((c = fork()) == 0) {
		drain(idx, n, path, style);
		_exit(0);
	}
	while (waitpid(c, &st, 0) < 0 && errno == EINTR);
	return WIFEXITED(st) && WEXITSTATUS(st) == 0;
}

static int
cmp_occ(const void *a, const void *b)
{
	const struct occ_s *x = a, *y = b;
	return x->key < y->key ? -1 : x->key > y->key ? 1 : x->who - y->who;
}

static void
enumerate(void)
{
	static struct occ_s alone[8][MAXOCC];
	static int nalone[8];
	const int maxn = (int)vd_opt_l("maxn", 3);
	static const char *const pname[] = {"vmux", "vmux-reversed", "one-file"};

	vd_count_cases = 0;
	shm = mmap(NULL, sizeof(*shm), PROT_READ | PROT_WRITE, MAP_SHARED | MAP_ANONYMOUS, -1, 0);
	for (int k = 0; k < NMENU; k++) {
		if (!in_child(&k, 1, 0, 0) || shm->n != 5) {
			if (vd_next()) {
				vd_shape("forms/precond");
				vd_desc("constituent %s alone", menu[k].name);
				vd_viol("precond/alone", "constituent %s alone delivers %d occurrences instead of 5", menu[k].name, shm->n);
			}
			return;
		}
		nalone[k] = shm->n;
		memcpy(alone[k], shm->o, sizeof(alone[k]));
		for (int i = 0; i < shm->n; i++) alone[k][i].who = k;
	}
	for (unsigned mask = 1; mask < (1U << NMENU); mask++) {
		int idx[8], n = 0, nzone = 0, nall = 0;
		for (int k = 0; k < NMENU; k++) if (mask >> k & 1U) idx[n++] = k;
		if (n < 2 || n > maxn) continue;
		for (int i = 0; i < n; i++) {
			nzone += strstr(menu[idx[i]].lines, "TZID=") != NULL;
			nall += strstr(menu[idx[i]].lines, "VALUE=DATE") != NULL;
		}
		for (int path = 0; path < 3; path++) {
			for (int style = 0; style < 2; style++) {
				struct occ_s want[MAXOCC], got[MAXOCC];
				int nw = 0, ng;
				char names[160] = "", sig[160];
				const char *kind = nzone >= 2 ? "several-zones" : (nall && nall < n) ? "dates-and-times" : "like-forms";

				if (!vd_next()) continue;
				vd_sh->evals++;
				for (int i = 0; i < n; i++) snprintf(names + strlen(names), sizeof(names) - strlen(names), "%s%s", i ? " + " : "", menu[idx[i]].name);
				vd_desc("%s merged by %s, read by %s", names, pname[path], style ? "peek-pop pairs" : "pops");
				vd_shape("forms/%s/%s", kind, pname[path]);
				if (!in_child(idx, n, path, style)) {
					snprintf(sig, sizeof(sig), "crash/forms/%s", kind);
					vd_viol(sig, "the image died merging or reading");
					continue;
				}
				if (shm->n < 0) {
					vd_viol("rejected/forms", "constituents not accepted or not merged (%d)", shm->n);
					continue;
				}
				ng = shm->n;
				memcpy(got, shm->o, sizeof(got));
				if (nzone >= 2 || (nall && nall < n)) vd_nontrivial();
				if (vd_want_sample()) vd_sample("%s by %s: %d occurrences", names, pname[path], ng);
				if (shm->peek_mismatch) {
					snprintf(sig, sizeof(sig), "peek/forms/%s", kind);
					vd_viol(sig, "%d times a peek showed something else than the pop that followed", shm->peek_mismatch);
				}
				for (int i = 1; i < ng; i++) {
					if (got[i].key < got[i - 1].key) {
						rf_dt a = rf_from_secs(got[i - 1].key, 0), b = rf_from_secs(got[i].key, 0);
						snprintf(sig, sizeof(sig), "order/forms/%s", kind);
						vd_viol(sig, "%s %04d-%02d-%02d%s is delivered before %s %04d-%02d-%02dT%02d:%02d:%02d%s", menu[got[i - 1].who < 0 ? 0 : got[i - 1].who].name, a.y, a.m, a.d,
							got[i - 1].allday ? " (all day)" : "", menu[got[i].who < 0 ? 0 : got[i].who].name, b.y, b.m, b.d, b.H, b.M, b.S, got[i].allday ? " (all day)" : "");
						break;
					}
				}
				for (int i = 0; i < n; i++) {
					memcpy(want + nw, alone[idx[i]], sizeof(want[0]) * (size_t)nalone[idx[i]]);
					nw += nalone[idx[i]];
				}
				qsort(want, (size_t)nw, sizeof(*want), cmp_occ);
				qsort(got, (size_t)ng, sizeof(*got), cmp_occ);
				{
					int bad = ng != nw;
					for (int i = 0; !bad && i < ng; i++) bad |= got[i].key != want[i].key || got[i].who != want[i].who;
					if (bad) {
						/* first difference */
						int i = 0;
						while (i < ng && i < nw && got[i].key == want[i].key && got[i].who == want[i].who) i++;
						snprintf(sig, sizeof(sig), "union/forms/%s", kind);
						if (i < nw) {
							rf_dt w = rf_from_secs(want[i].key, 0);
							vd_viol(sig, "%d occurrences delivered, the constituents alone give %d; first difference: %s %04d-%02d-%02dT%02d:%02d:%02d is %s", ng, nw,
								menu[want[i].who].name, w.y, w.m, w.d, w.H, w.M, w.S, i < ng && got[i].key < want[i].key ? "preceded by an occurrence nobody has" : "missing");
						} else {
							vd_viol(sig, "%d occurrences delivered, the constituents alone give %d", ng, nw);
						}
					}
				}
			}
		}
	}
}

int
main(int argc, char *argv[])
{
	return vd_main(argc, argv, enumerate);
}
