/* C03 -- wide merges (many constituents) and long constituents (many occurrences each).
 *
 * mode=wide  N = 1..nmax (70; up to 140) one-rule events, every one with its own UID and its own minute of the day (three daily
 *            occurrences each, so that no two occurrences of the whole merge share an instant and the order in time is
 *            not the order of the arguments), each parsed from its own calendar text, are merged by each of the four
 *            constructors of evstrm.h -- echs_evstrm_mux (variadic; ONE call site with 140 arguments and a closing
 *            NULL, the first NULL ends the list), echs_evstrm_mux_clon (variadic), echs_evstrm_vmux and
 *            echs_evstrm_vmux_clon (array) -- and read to the end by pops and by peek-pop pairs.  The reference is
 *            arithmetic: constituent k occurs on 2020-01-01, -02, -03 at minute (611 k + 7) mod 1440 UTC; the merged
 *            stream must deliver exactly these 3 N occurrences, each once, under the UID of its constituent, in
 *            increasing order, show on a peek what the next pop returns, and stay at its end.  (Each constituent
 *            alone is held against the same arithmetic first.)  Ownership follows the code: echs_evstrm_mux and
 *            echs_evstrm_vmux_clon clone, so the originals are freed BEFORE the merge is read; echs_evstrm_mux_clon
 *            and echs_evstrm_vmux take the streams over.
 *
 * mode=long  one event whose rule has many more occurrences than any internal batch (200, or whatever an UNTIL
 *            admits) and whose delivered instants are NOT the instants the rule is stepped in: DTSTART in a zone with
 *            daylight saving time (start in winter, in summer, northern and southern hemisphere; daily, weekly,
 *            monthly, hourly), or a calendar whose CALSCALE is a Hijri one; plus UTC / Tokyo controls.  Differential
 *            oracle, every reading in a freshly forked image:
 *              (a) the event alone, read by pops                                   -> list A (must be strictly increasing)
 *              (b) the event alone, read by peek, peek, pop                        -> both peeks equal the pop; list == A
 *              (c) the event merged with a second event (own list B) by five paths (vmux of two files in both orders,
 *                  one file in both orders, variadic mux), read by pops and by peek, peek, pop:
 *                  the occurrences under the long event's UID == A, those under the other UID == B, nothing else,
 *                  starts non-decreasing, peeks equal the pop, the end stays the end
 *              (d) the event with one additional RDATE (the two-stream mux make_task() builds), both styles:
 *                  == the duplicate-free sorted union of A and what the same event with only the RDATE delivers
 */
#include "vdrv.h"
#include <sys/wait.h>
#include "ref/icalio.h"
#include "evstrm.h"
#include "scale.h"
#include "tzob.h"

#define MAXN	140
#define MAXOCC	1200

struct occ_s {
	uint64_t u;	/* the instant as delivered */
	int who;	/* constituent, -1 nobody we know */
};

struct shm_s {
	int n;		/* occurrences delivered; < 0: not accepted / not merged */
	int peek_mismatch, peek_at;	/* peeks that differ from the following pop, first position (1-based) */
	int peek_unstable, unstable_at;	/* two peeks in a row that differ */
	int tail;	/* non-nul answers to the two calls past the end */
	int capped;	/* did not end within MAXOCC */
	struct occ_s o[MAXOCC];
};
static struct shm_s *shm;

/* order key of an instant: its digits with the zone/scale tags taken off, an all-day one at 00:00:00 of its day */
static int64_t
okey(uint64_t u)
{
	echs_instant_t i = {.u = u};
	i = echs_instant_detach_scale(echs_instant_detach_tzob(i));
	if (echs_instant_all_day_p(i)) {
		return ((((int64_t)i.y * 16 + i.m) * 64 + i.d) * 32 * 64 * 64) * 1024;
	}
	return ((((((int64_t)i.y * 16 + i.m) * 64 + i.d) * 32 + i.H) * 64 + i.M) * 64 + i.S) * 1024 + (echs_instant_all_sec_p(i) ? 0 : i.ms);
}

static const char*
ustr(char *buf, size_t bsz, uint64_t u)
{
	echs_instant_t i = {.u = u};
	return inst_str(buf, bsz, echs_instant_detach_scale(echs_instant_detach_tzob(i)));
}

/* read M to its end into shm; OIDS[0..noid) identify the constituents */
static void
read_out(echs_evstrm_t m, const echs_oid_t *oids, int noid, int style)
{
	while (shm->n < MAXOCC) {
		echs_event_t p1, p2, e;
		if (style) {
			p1 = echs_evstrm_next(m);
			p2 = echs_evstrm_next(m);
		}
		e = echs_evstrm_pop(m);
		if (style) {
			if (p1.from.u != p2.from.u || p1.oid != p2.oid) {
				if (!shm->peek_unstable++) shm->unstable_at = shm->n + 1;
			}
			if (p2.from.u != e.from.u || p2.oid != e.oid) {
				if (!shm->peek_mismatch++) shm->peek_at = shm->n + 1;
			}
		}
		if (echs_nul_event_p(e)) break;
		shm->o[shm->n].u = e.from.u;
		shm->o[shm->n].who = -1;
		for (int i = 0; i < noid; i++) {
			if (oids[i] == e.oid) {
				shm->o[shm->n].who = i;
				break;
			}
		}
		shm->n++;
	}
	if (shm->n >= MAXOCC) {
		shm->capped = 1;
		return;
	}
	/* the end stays the end */
	shm->tail += !echs_nul_event_p(echs_evstrm_next(m));
	shm->tail += !echs_nul_event_p(echs_evstrm_pop(m));
}

static int
run_child(void (*f)(const void*), const void *arg)
{
	pid_t c;
	int st;
	fflush(stdout);
	memset(shm, 0, sizeof(*shm));
	if ((c = fork()) == 0) {
		f(arg);
		_exit(0);
	}
	while (waitpid(c, &st, 0) < 0 && errno == EINTR);
	vd_beat();
	return WIFEXITED(st) && WEXITSTATUS(st) == 0;
}

/* ---------------------------------------------------------------- wide */
enum {W_MUX, W_MUXCLON, W_VMUX, W_VMUXCLON, W_NCTOR};
static const char *const wname[] = {"mux", "mux_clon", "vmux", "vmux_clon"};

static int
w_minute(int k)
{
	return (611 * k + 7) % 1440;
}

static size_t
w_text(char *buf, size_t bsz, int k)
{
	const int md = w_minute(k);
	return (size_t)snprintf(buf, bsz,
		"BEGIN:VCALENDAR\nVERSION:2.0\nBEGIN:VEVENT\nUID:wide%02d@verif\nSUMMARY:true\n"
		"DTSTART:20200101T%02d%02d00Z\nRRULE:FREQ=DAILY;COUNT=3\nEND:VEVENT\nEND:VCALENDAR\n", k, md / 60, md % 60);
}

struct warg_s {
	int n, ctor, style;
	int first;	/* alone: the constituent */
};

#define A10(b)	s[b + 0], s[b + 1], s[b + 2], s[b + 3], s[b + 4], s[b + 5], s[b + 6], s[b + 7], s[b + 8], s[b + 9]

static void
w_drain(const void *arg)
{
	const struct warg_s *a = arg;
	static char text[512];
	echs_task_t t[MAXN + 1];
	echs_evstrm_t s[MAXN + 1], m;
	echs_oid_t oids[MAXN + 1];

	memset(s, 0, sizeof(s));
	for (int i = 0; i < a->n; i++) {
		w_text(text, sizeof(text), a->first + i);
		if ((t[i] = ical_task1(text)) == NULL || t[i]->strm == NULL) {
			shm->n = -1;
			return;
		}
		s[i] = t[i]->strm;
		oids[i] = t[i]->oid;
	}
	switch (a->ctor) {
	case W_MUX:
		m = echs_evstrm_mux(A10(0), A10(10), A10(20), A10(30), A10(40), A10(50), A10(60), A10(70), A10(80), A10(90), A10(100), A10(110), A10(120), A10(130), NULL);
		break;
	case W_MUXCLON:
		m = echs_evstrm_mux_clon(A10(0), A10(10), A10(20), A10(30), A10(40), A10(50), A10(60), A10(70), A10(80), A10(90), A10(100), A10(110), A10(120), A10(130), NULL);
		break;
	case W_VMUX:
		m = echs_evstrm_vmux(s, (size_t)a->n);
		break;
	default:
		m = echs_evstrm_vmux_clon(s, (size_t)a->n);
		break;
	}
	if (m == NULL) {
		shm->n = -2;
		return;
	}
	/* the cloning constructors leave the originals with the caller: they go away before the merge is read;
	 * a stream that was handed through as it is (one constituent) stays */
	for (int i = 0; i < a->n; i++) {
		if (t[i]->strm == m || a->ctor == W_MUXCLON || a->ctor == W_VMUX) {
			((struct echs_task_s*)t[i])->strm = NULL;
		}
		free_echs_task(t[i]);
	}
	read_out(m, oids, a->n, a->style);
	free_echs_evstrm(m);
}

static const char*
w_nclass(int n)
{
	return n <= 1 ? "n=1" : n <= 16 ? "n2-16" : n <= 32 ? "n17-32" : n <= 64 ? "n33-64" : n <= 128 ? "n65-128" : "n129+";
}

struct wexp_s {
	int day, md, who;
};

static int
cmp_wexp(const void *a, const void *b)
{
	const struct wexp_s *x = a, *y = b;
	return x->day != y->day ? x->day - y->day : x->md - y->md;
}

/* hold what shm has against the arithmetic for constituents FIRST..FIRST+N; true if it agrees */
static int
w_judge(const char *what, const char *cls, int first, int n)
{
	static struct wexp_s want[3 * MAXN];
	char sig[160], b1[40];
	int nw = 0, ok = 1;

	for (int k = 0; k < n; k++) {
		for (int j = 0; j < 3; j++) {
			want[nw].day = 1 + j, want[nw].md = w_minute(first + k), want[nw].who = k;
			nw++;
		}
	}
	qsort(want, (size_t)nw, sizeof(*want), cmp_wexp);
	if (shm->n < 0) {
		snprintf(sig, sizeof(sig), "rejected/wide/%s/%s", what, cls);
		vd_viol(sig, "constituents not accepted or not merged (%d)", shm->n);
		return 0;
	}
	if (shm->peek_unstable) {
		snprintf(sig, sizeof(sig), "peek-unstable/wide/%s/%s", what, cls);
		vd_viol(sig, "%d times two peeks in a row differ, first before pop %d", shm->peek_unstable, shm->unstable_at);
		ok = 0;
	}
	if (shm->peek_mismatch) {
		snprintf(sig, sizeof(sig), "peek/wide/%s/%s", what, cls);
		vd_viol(sig, "%d times a peek showed something else than the pop that followed, first at pop %d", shm->peek_mismatch, shm->peek_at);
		ok = 0;
	}
	if (shm->tail || shm->capped) {
		snprintf(sig, sizeof(sig), "end/wide/%s/%s", what, cls);
		vd_viol(sig, "%s", shm->capped ? "the stream does not end" : "something is delivered after the end was reported");
		ok = 0;
	}
	for (int i = 1; i < shm->n; i++) {
		if (okey(shm->o[i].u) < okey(shm->o[i - 1].u)) {
			snprintf(sig, sizeof(sig), "order/wide/%s/%s", what, cls);
			vd_viol(sig, "delivery %d (%s) lies before delivery %d", i + 1, ustr(b1, sizeof(b1), shm->o[i].u), i);
			ok = 0;
			break;
		}
	}
	for (int i = 0; i < nw || i < shm->n; i++) {
		int same = i < nw && i < shm->n;
		if (same) {
			echs_instant_t g = {.u = shm->o[i].u};
			same = g.y == 2020 && g.m == 1 && g.d == (unsigned)want[i].day && g.H == (unsigned)want[i].md / 60 &&
				g.M == (unsigned)want[i].md % 60 && g.S == 0 && shm->o[i].who == want[i].who;
		}
		if (!same) {
			/* say which constituents are short altogether */
			int cnt[MAXN] = {0}, nshort = 0, firstshort = -1;
			for (int j = 0; j < shm->n; j++) if (shm->o[j].who >= 0) cnt[shm->o[j].who]++;
			for (int k = 0; k < n; k++) if (cnt[k] < 3) { nshort++; if (firstshort < 0) firstshort = k; }
			snprintf(sig, sizeof(sig), "union/wide/%s/%s", what, cls);
			if (i < nw) {
				vd_viol(sig, "%d occurrences delivered, %d expected; first difference at delivery %d: expected constituent %d (argument %d of %d) on 2020-01-%02dT%02d:%02d:00Z, got %s%s; %d constituents deliver fewer than 3, the first is argument %d",
					shm->n, nw, i + 1, first + want[i].who, want[i].who + 1, n, want[i].day, want[i].md / 60, want[i].md % 60,
					i < shm->n ? ustr(b1, sizeof(b1), shm->o[i].u) : "the end", i < shm->n && shm->o[i].who < 0 ? " under an unknown UID" : "", nshort, firstshort + 1);
			} else {
				vd_viol(sig, "%d occurrences delivered, %d expected; delivery %d (%s) is one too many", shm->n, nw, i + 1, ustr(b1, sizeof(b1), shm->o[i].u));
			}
			ok = 0;
			break;
		}
	}
	return ok;
}

static void
enum_wide(void)
{
	const int nmax = (int)vd_opt_l("nmax", 70);
	const int nmin = (int)vd_opt_l("nmin", 1);

	/* every constituent alone */
	for (int k = 0; k < nmax && k < MAXN; k++) {
		struct warg_s a = {1, W_VMUX, 0, k};
		if (!vd_next()) continue;
		vd_sh->evals++;
		vd_desc("constituent %d alone: DTSTART:20200101T%02d%02d00Z RRULE:FREQ=DAILY;COUNT=3", k, w_minute(k) / 60, w_minute(k) % 60);
		vd_shape("wide/alone");
		if (!run_child(w_drain, &a)) {
			vd_viol("crash/wide/alone", "the image died reading one constituent");
			continue;
		}
		w_judge("alone", "n=1", k, 1);
	}
	for (int n = nmin; n <= nmax && n <= MAXN; n++) {
		for (int ctor = 0; ctor < W_NCTOR; ctor++) {
			for (int style = 0; style < 2; style++) {
				struct warg_s a = {n, ctor, style, 0};
				char sig[160];
				if (!vd_next()) continue;
				vd_sh->evals++;
				vd_desc("constituents 0..%d (UID wide<k>@verif, DTSTART:20200101T<(611k+7) mod 1440 as HHMM>00Z, RRULE:FREQ=DAILY;COUNT=3) merged by echs_evstrm_%s, read by %s",
					n - 1, wname[ctor], style ? "peek-peek-pop" : "pops");
				vd_shape("wide/%s/%s", wname[ctor], w_nclass(n));
				if (n >= 2) vd_nontrivial();
				if (!run_child(w_drain, &a)) {
					snprintf(sig, sizeof(sig), "crash/wide/%s/%s", wname[ctor], w_nclass(n));
					vd_viol(sig, "the image died merging or reading");
					continue;
				}
				vd_count("occurrences_checked", shm->n > 0 ? shm->n : 0);
				w_judge(wname[ctor], w_nclass(n), 0, n);
				if (vd_want_sample() && n > 16) vd_sample("%d constituents by echs_evstrm_%s, %s: %d occurrences", n, wname[ctor], style ? "peek-peek-pop" : "pops", shm->n);
			}
		}
	}
}

/* ---------------------------------------------------------------- long */
struct rule_s {
	const char *name;
	const char *fam;	/* class for the signature */
	const char *cal;	/* calendar-level lines */
	const char *lines;	/* the long event */
	const char *other;	/* the second event */
	const char *rdate;	/* an additional RDATE line for reading (d), or NULL */
	int want;		/* occurrences the long event must have alone; 0 = at least 130 */
};

#define OTHER_UTC	"DTSTART:20200101T073000Z\nRRULE:FREQ=DAILY;INTERVAL=3;COUNT=200\n"
#define OTHER_UTC5	"DTSTART:20200101T223000Z\nRRULE:FREQ=WEEKLY;COUNT=300\n"
#define OTHER_HIJ	"DTSTART;VALUE=DATE;SCALE=HIJRI.IA:14410115\nRRULE:FREQ=WEEKLY;COUNT=40\n"
static const struct rule_s rules[] = {
	/* 64th, 127th, 190th occurrence on the far side of a switch for at least one of them, whatever the start */
	{"berlin-daily-winter", "zoned-dst", "", "DTSTART;TZID=Europe/Berlin:20200115T090000\nRRULE:FREQ=DAILY;COUNT=200\n", OTHER_UTC, "RDATE:20200520T073000Z\n", 200},
	{"berlin-daily-feb", "zoned-dst", "", "DTSTART;TZID=Europe/Berlin:20200201T090000\nRRULE:FREQ=DAILY;COUNT=200\n", OTHER_UTC, "RDATE:20200404T073000Z\n", 200},
	{"berlin-daily-summer", "zoned-dst", "", "DTSTART;TZID=Europe/Berlin:20200701T090000\nRRULE:FREQ=DAILY;COUNT=200\n", OTHER_UTC, "RDATE:20201104T073000Z\n", 200},
	{"berlin-daily-until", "zoned-dst", "", "DTSTART;TZID=Europe/Berlin:20200115T090000\nRRULE:FREQ=DAILY;UNTIL=20200801T000000Z\n", OTHER_UTC, NULL, 0},
	{"newyork-daily-winter", "zoned-dst", "", "DTSTART;TZID=America/New_York:20200115T180000\nRRULE:FREQ=DAILY;COUNT=200\n", OTHER_UTC5, "RDATE:20200520T223000Z\n", 200},
	{"newyork-daily-summer", "zoned-dst", "", "DTSTART;TZID=America/New_York:20200701T180000\nRRULE:FREQ=DAILY;COUNT=200\n", OTHER_UTC5, NULL, 200},
	{"sydney-daily-jan", "zoned-dst", "", "DTSTART;TZID=Australia/Sydney:20200115T080000\nRRULE:FREQ=DAILY;COUNT=200\n", OTHER_UTC5, NULL, 200},
	{"sydney-daily-jul", "zoned-dst", "", "DTSTART;TZID=Australia/Sydney:20200701T080000\nRRULE:FREQ=DAILY;COUNT=200\n", OTHER_UTC5, NULL, 200},
	{"berlin-weekly-2", "zoned-dst", "", "DTSTART;TZID=Europe/Berlin:20200102T090000\nRRULE:FREQ=WEEKLY;BYDAY=TU,TH;COUNT=200\n", OTHER_UTC, NULL, 200},
	{"london-monthly", "zoned-dst", "", "DTSTART;TZID=Europe/London:20200115T120000\nRRULE:FREQ=MONTHLY;COUNT=200\n", OTHER_UTC, NULL, 200},
	{"berlin-every-2nd-day", "zoned-dst", "", "DTSTART;TZID=Europe/Berlin:20201201T233000\nRRULE:FREQ=DAILY;INTERVAL=2;COUNT=200\n", OTHER_UTC5, NULL, 200},
	{"berlin-hourly-7", "zoned-dst", "", "DTSTART;TZID=Europe/Berlin:20200301T003000\nRRULE:FREQ=HOURLY;INTERVAL=7;COUNT=200\n", OTHER_UTC, NULL, 200},
	/* controls: nothing to convert */
	{"utc-daily", "utc", "", "DTSTART:20200115T090000Z\nRRULE:FREQ=DAILY;COUNT=200\n", OTHER_UTC, "RDATE:20200520T073000Z\n", 200},
	{"tokyo-daily", "zoned-fixed", "", "DTSTART;TZID=Asia/Tokyo:20200115T090000\nRRULE:FREQ=DAILY;COUNT=200\n", OTHER_UTC, NULL, 200},
	{"allday-daily", "allday", "", "DTSTART;VALUE=DATE:20200115\nRRULE:FREQ=DAILY;COUNT=200\n", OTHER_UTC, NULL, 200},
	/* a Hijri calendar: rules are stepped on Gregorian instants and delivered in the calendar's scale */
	{"hijri-daily-date", "hijri", "CALSCALE:HIJRI.IA\n", "DTSTART;VALUE=DATE;SCALE=HIJRI.IA:14410101\nRRULE:FREQ=DAILY;COUNT=200\n", OTHER_HIJ, NULL, 200},
	{"hijri-daily-time", "hijri", "CALSCALE:HIJRI.IA\n", "DTSTART;SCALE=HIJRI.IA:14410101T060000Z\nRRULE:FREQ=DAILY;COUNT=200\n", OTHER_HIJ, NULL, 200},
	{"hijri-monthly-date", "hijri", "CALSCALE:HIJRI.IA\n", "DTSTART;VALUE=DATE;SCALE=HIJRI.IA:14410101\nRRULE:FREQ=MONTHLY;COUNT=200\n", OTHER_HIJ, NULL, 200},
	{"hijri-weekly-date", "hijri", "CALSCALE:HIJRI.IA\n", "DTSTART;VALUE=DATE;SCALE=HIJRI.IA:14410103\nRRULE:FREQ=WEEKLY;COUNT=200\n", OTHER_HIJ, NULL, 200},
	{"hijri-cal-gregorian-dtstart", "hijri", "CALSCALE:HIJRI.IA\n", "DTSTART;VALUE=DATE:20190901\nRRULE:FREQ=DAILY;COUNT=200\n", OTHER_HIJ, NULL, 200},
};
#define NFIXED	((int)(sizeof(rules) / sizeof(*rules)))
/* the fixed menu plus a sweep: daily in Berlin and in Sydney from the first of every month of 2020, so that every
 * position of the stream falls on either side of a switch for some start */
static struct rule_s allrules[NFIXED + 24];
static int nrules;

static void
l_table(void)
{
	static char names[24][32], lines[24][128];

	memcpy(allrules, rules, sizeof(rules));
	nrules = NFIXED;
	for (int z = 0; z < 2; z++) {
		for (int mo = 1; mo <= 12; mo++) {
			const int g = z * 12 + mo - 1;
			snprintf(names[g], sizeof(names[g]), "%s-daily-m%02d", z ? "sydney" : "berlin", mo);
			snprintf(lines[g], sizeof(lines[g]), "DTSTART;TZID=%s:2020%02d01T%s\nRRULE:FREQ=DAILY;COUNT=200\n", z ? "Australia/Sydney" : "Europe/Berlin", mo, z ? "080000" : "090000");
			allrules[nrules++] = (struct rule_s){names[g], "zoned-dst", "", lines[g], z ? OTHER_UTC5 : OTHER_UTC, NULL, 200};
		}
	}
}

enum {L_ALONE, L_OTHER, L_VMUX_LO, L_VMUX_OL, L_FILE_LO, L_FILE_OL, L_MUX_LO, L_RDATE, L_RDONLY, L_NPATH};
static const char *const lname[] = {"alone", "other-alone", "vmux", "vmux-reversed", "one-file", "one-file-reversed", "mux", "with-rdate", "rdate-only"};

struct larg_s {
	int r, path, style;
};

static size_t
l_event(char *buf, size_t bsz, int who, const char *lines, const char *more)
{
	return (size_t)snprintf(buf, bsz, "BEGIN:VEVENT\nUID:%s@verif\nSUMMARY:true\n%s%sEND:VEVENT\n", who ? "other" : "long", lines, more ? more : "");
}

/* strip the RRULE line off LINES (the event with only its RDATE) */
static const char*
l_norule(const char *lines)
{
	static char buf[512];
	const char *r = strstr(lines, "RRULE:");
	snprintf(buf, sizeof(buf), "%.*s", r ? (int)(r - lines) : (int)strlen(lines), lines);
	return buf;
}

static void
l_drain(const void *arg)
{
	const struct larg_s *a = arg;
	const struct rule_s *R = &allrules[a->r];
	static char text[2][2048];
	echs_task_t t[4] = {NULL};
	echs_evstrm_t s[4], m;
	echs_oid_t oids[2] = {0, 0};
	int whos[4], nt = 0, nfile = 1;
	size_t o[2];

	for (int f = 0; f < 2; f++) o[f] = (size_t)snprintf(text[f], sizeof(text[f]), "BEGIN:VCALENDAR\nVERSION:2.0\n%s", R->cal);
#define EV(f, who, lines, more)	o[f] += l_event(text[f] + o[f], sizeof(text[f]) - o[f], who, lines, more), whos[nt++] = who
	switch (a->path) {
	case L_ALONE: EV(0, 0, R->lines, NULL); break;
	case L_OTHER: EV(0, 1, R->other, NULL); break;
	case L_RDATE: EV(0, 0, R->lines, R->rdate); break;
	case L_RDONLY: EV(0, 0, l_norule(R->lines), R->rdate); break;
	case L_VMUX_LO: case L_MUX_LO: EV(0, 0, R->lines, NULL); EV(1, 1, R->other, NULL); nfile = 2; break;
	case L_VMUX_OL: EV(0, 1, R->other, NULL); EV(1, 0, R->lines, NULL); nfile = 2; break;
	case L_FILE_LO: EV(0, 0, R->lines, NULL); EV(0, 1, R->other, NULL); break;
	default: EV(0, 1, R->other, NULL); EV(0, 0, R->lines, NULL); break;
	}
#undef EV
	{
		int k = 0;
		for (int f = 0; f < nfile; f++) {
			o[f] += (size_t)snprintf(text[f] + o[f], sizeof(text[f]) - o[f], "END:VCALENDAR\n");
			k += (int)ical_tasks(t + k, (size_t)(4 - k), text[f], o[f]);
		}
		if (k != nt) {
			shm->n = -1;
			return;
		}
	}
	for (int i = 0; i < nt; i++) {
		if ((s[i] = t[i]->strm) == NULL) {
			shm->n = -1;
			return;
		}
		oids[whos[i]] = t[i]->oid;
	}
	if (nt == 1) {
		m = s[0];
	} else if (a->path == L_MUX_LO) {
		/* clones; the originals go away at once */
		m = echs_evstrm_mux(s[0], s[1], NULL);
		free_echs_task(t[0]);
		free_echs_task(t[1]);
	} else {
		m = echs_evstrm_vmux(s, (size_t)nt);
	}
	if (m == NULL) {
		shm->n = -2;
		return;
	}
	read_out(m, oids, 2, a->style);
}

struct ref_s {
	int have;
	int na, nb, nr;
	struct occ_s a[MAXOCC], b[MAXOCC], r[8];
};

static int
strictly_increasing(const struct occ_s *o, int n)
{
	for (int i = 1; i < n; i++) if (okey(o[i].u) <= okey(o[i - 1].u)) return i;
	return 0;
}

/* readings of the constituents alone; false (and reported) when they cannot serve as a reference */
static int
l_refs(int r, struct ref_s *ref)
{
	struct larg_s a = {r, L_ALONE, 0};
	char sig[160];
	int bad;

	ref->have = -1;
	if (!run_child(l_drain, &a) || shm->n < 0 || shm->capped || shm->tail) {
		snprintf(sig, sizeof(sig), "precond/long/%s/alone", allrules[r].fam);
		vd_viol(sig, "the long event alone is not accepted, dies, or does not end (%d)", shm->n);
		return 0;
	}
	ref->na = shm->n;
	memcpy(ref->a, shm->o, sizeof(shm->o[0]) * (size_t)shm->n);
	if ((allrules[r].want ? ref->na != allrules[r].want : ref->na < 130) || (bad = strictly_increasing(ref->a, ref->na))) {
		snprintf(sig, sizeof(sig), "precond/long/%s/alone", allrules[r].fam);
		vd_viol(sig, "the long event alone delivers %d occurrences (%d wanted) or is not strictly increasing", ref->na, allrules[r].want);
		return 0;
	}
	a.path = L_OTHER;
	if (!run_child(l_drain, &a) || shm->n <= 0 || shm->capped || shm->tail || strictly_increasing(shm->o, shm->n)) {
		snprintf(sig, sizeof(sig), "precond/long/%s/other", allrules[r].fam);
		vd_viol(sig, "the second event alone is not accepted, dies, does not end or is not strictly increasing (%d)", shm->n);
		return 0;
	}
	ref->nb = shm->n;
	memcpy(ref->b, shm->o, sizeof(shm->o[0]) * (size_t)shm->n);
	ref->nr = 0;
	if (allrules[r].rdate) {
		a.path = L_RDONLY;
		if (!run_child(l_drain, &a) || shm->n < 0 || shm->n > 8 || shm->tail) {
			snprintf(sig, sizeof(sig), "precond/long/%s/rdate-only", allrules[r].fam);
			vd_viol(sig, "the event with only its RDATE is not accepted or dies (%d)", shm->n);
			return 0;
		}
		ref->nr = shm->n;
		memcpy(ref->r, shm->o, sizeof(shm->o[0]) * (size_t)shm->n);
	}
	ref->have = 1;
	return 1;
}

static int
cmp_occ(const void *a, const void *b)
{
	const struct occ_s *x = a, *y = b;
	const int64_t kx = okey(x->u), ky = okey(y->u);
	return kx < ky ? -1 : kx > ky;
}

static void
enum_long(void)
{
	static struct ref_s ref;
	static struct occ_s want[MAXOCC + 8], got[MAXOCC];
	int refof = -1;

	for (int r = 0; r < nrules; r++) {
		for (int path = 0; path < L_NPATH; path++) {
			if (path == L_OTHER || path == L_RDONLY) continue;
			if (path == L_RDATE && allrules[r].rdate == NULL) continue;
			for (int style = 0; style < 2; style++) {
				struct larg_s a = {r, path, style};
				const char *fam = allrules[r].fam;
				const char *pcls = path == L_ALONE ? "alone" : path == L_RDATE ? "with-rdate" : "merged";
				char sig[160], b1[40], b2[40];
				int ng;

				if (path == L_ALONE && style == 0) continue;	/* that is the reference */
				if (!vd_next()) continue;
				vd_sh->evals++;
				vd_desc("%s [%s%s] %s%s%s, read by %s", allrules[r].name, allrules[r].cal, allrules[r].lines, lname[path],
					path == L_RDATE ? " " : path != L_ALONE ? " with " : "", path == L_RDATE ? allrules[r].rdate : path != L_ALONE ? allrules[r].other : "",
					style ? "peek-peek-pop" : "pops");
				for (char *q = vd_sh->desc; *q; q++) if (*q == '\n') *q = ' ';
				vd_shape("long/%s/%s", fam, pcls);
				if (refof != r) {
					refof = r;
					l_refs(r, &ref);
				} else if (ref.have < 0) {
					/* reported with the first case of this rule in this worker */
					vd_count("cases_without_reference", 1);
				}
				if (ref.have < 0) continue;
				if (strcmp(fam, "utc") && strcmp(fam, "zoned-fixed") && strcmp(fam, "allday")) vd_nontrivial();
				if (!run_child(l_drain, &a)) {
					snprintf(sig, sizeof(sig), "crash/long/%s/%s", fam, pcls);
					vd_viol(sig, "the image died merging or reading");
					continue;
				}
				if (shm->n < 0) {
					snprintf(sig, sizeof(sig), "rejected/long/%s/%s", fam, pcls);
					vd_viol(sig, "not accepted or not merged (%d)", shm->n);
					continue;
				}
				ng = shm->n;
				memcpy(got, shm->o, sizeof(got[0]) * (size_t)ng);
				vd_count("occurrences_checked", ng);
				if (shm->peek_unstable) {
					snprintf(sig, sizeof(sig), "peek-unstable/long/%s/%s", fam, pcls);
					vd_viol(sig, "%d times two peeks in a row differ, first before pop %d", shm->peek_unstable, shm->unstable_at);
				}
				if (shm->peek_mismatch) {
					snprintf(sig, sizeof(sig), "peek/long/%s/%s", fam, pcls);
					vd_viol(sig, "%d times a peek showed something else than the pop that followed, first at pop %d (which delivered %s)", shm->peek_mismatch, shm->peek_at,
						shm->peek_at <= ng ? ustr(b1, sizeof(b1), got[shm->peek_at - 1].u) : "the end");
				}
				if (shm->tail || shm->capped) {
					snprintf(sig, sizeof(sig), "end/long/%s/%s", fam, pcls);
					vd_viol(sig, "%s", shm->capped ? "the stream does not end" : "something is delivered after the end was reported");
				}
				for (int i = 1; i < ng; i++) {
					if (okey(got[i].u) < okey(got[i - 1].u)) {
						snprintf(sig, sizeof(sig), "order/long/%s/%s", fam, pcls);
						vd_viol(sig, "delivery %d (%s of %s) lies before delivery %d (%s)", i + 1, ustr(b1, sizeof(b1), got[i].u),
							got[i].who == 0 ? "the long event" : got[i].who == 1 ? "the second event" : "an unknown UID", i, ustr(b2, sizeof(b2), got[i - 1].u));
						break;
					}
				}
				if (path == L_RDATE) {
					/* duplicate-free sorted union of A and the RDATE-only reading, all under the long event's UID */
					int nw = 0, w = 0;
					for (int i = 0; i < ref.na; i++) want[nw++] = ref.a[i];
					for (int i = 0; i < ref.nr; i++) want[nw++] = ref.r[i];
					qsort(want, (size_t)nw, sizeof(*want), cmp_occ);
					for (int i = 0; i < nw; i++) if (!w || want[w - 1].u != want[i].u) want[w++] = want[i];
					nw = w;
					for (int i = 0; i < nw || i < ng; i++) {
						if (i >= nw || i >= ng || got[i].u != want[i].u || got[i].who != 0) {
							snprintf(sig, sizeof(sig), "union/long/%s/%s", fam, pcls);
							vd_viol(sig, "delivery %d: the rule and the RDATE on their own give %s, the event gives %s (%d vs %d occurrences)", i + 1,
								i < nw ? ustr(b1, sizeof(b1), want[i].u) : "nothing", i < ng ? ustr(b2, sizeof(b2), got[i].u) : "nothing", nw, ng);
							break;
						}
					}
					continue;
				}
				/* per UID: what comes out under it is what the event delivers alone */
				for (int who = 0; who < 2; who++) {
					const struct occ_s *w = who ? ref.b : ref.a;
					const int nw = path == L_ALONE && who ? 0 : who ? ref.nb : ref.na;
					int j = 0, bad = 0;
					for (int i = 0; i < ng && !bad; i++) {
						if (got[i].who != who) continue;
						if (j >= nw || got[i].u != w[j].u) {
							snprintf(sig, sizeof(sig), "union/long/%s/%s", fam, pcls);
							vd_viol(sig, "occurrence %d of %s: alone it is %s, here it is %s (delivery %d)", j + 1, who ? "the second event" : "the long event",
								j < nw ? ustr(b1, sizeof(b1), w[j].u) : "the end", ustr(b2, sizeof(b2), got[i].u), i + 1);
							bad = 1;
						}
						j++;
					}
					if (!bad && j != nw) {
						snprintf(sig, sizeof(sig), "union/long/%s/%s", fam, pcls);
						vd_viol(sig, "%s delivers %d occurrences alone, %d here", who ? "the second event" : "the long event", nw, j);
					}
				}
				for (int i = 0; i < ng; i++) {
					if (got[i].who < 0) {
						snprintf(sig, sizeof(sig), "union/long/%s/%s", fam, pcls);
						vd_viol(sig, "delivery %d (%s) carries a UID of neither event", i + 1, ustr(b1, sizeof(b1), got[i].u));
						break;
					}
				}
				if (vd_want_sample() && path >= L_VMUX_LO) vd_sample("%s by %s, %s: %d + %d -> %d occurrences", allrules[r].name, lname[path], style ? "peek-peek-pop" : "pops", ref.na, ref.nb, ng);
			}
		}
	}
}

static void
enumerate(void)
{
	const char *mode = vd_opt("mode", "wide");

	vd_count_cases = 0;
	shm = mmap(NULL, sizeof(*shm), PROT_READ | PROT_WRITE, MAP_SHARED | MAP_ANONYMOUS, -1, 0);
	if (!strcmp(mode, "wide")) {
		enum_wide();
	} else {
		l_table();
		enum_long();
	}
}

int
main(int argc, char *argv[])
{
	return vd_main(argc, argv, enumerate);
}
