/* C16 (COUNT across a rewrite) -- never more than COUNT occurrences in total, also when the event is written out
 * and read back half way (what `echse merge --unroll=DT', an echsd checkpoint and `echsq list' do: echs_task_icalify()
 * writes every RRULE with the number of occurrences it has left).
 *
 * Events: DTSTART:20240101T120000Z with two or three RRULEs from a menu, in every order, each with a COUNT from a menu
 * (rules behind the first also without COUNT).  For every k = 0 .. (number of occurrences, capped): the text is parsed,
 * k occurrences are popped, the task is written (both header forms: echsq / echsd checkpoint), the written text is
 * parsed and its stream followed to the end (cap 400 pops).  Oracle, from the COUNTs in the text alone:
 *   count-total   k + (occurrences after the rewrite) <= sum of the COUNTs          (all rules bounded)
 *   endless       the re-read stream of an all-bounded event ends within the cap
 *   count-rule    per rule with COUNT: its occurrences before + after the rewrite <= its COUNT.  Attributed by the hour
 *                 of the day, possible because every rule of the menu has its own BYHOUR (the minute and second come
 *                 from DTSTART and are 00:00 throughout) -- events with a rule without BYHOUR are judged in total only
 * WHICH times the re-read rules deliver is not judged (C05: several RRULEs are written with one shared DTSTART).
 * A COUNT=0 / INTERVAL=0 typed in directly is not an event the RFC defines and is left out.
 *
 * case = one event (all its k, both forms); evaluations count (k, form) round trips.
 * options: counts=quick|full  three=0|1  kmax=N  nocount=1
 */
#include "vdrv.h"
#include <stdbool.h>
#include "ref/icalio.h"
#include "ref/c05_common.h"

/* a second pass over the same cases (sanitizer build) does not count them again: nocount=1 */
static int nocount;

#define CAP	400
#define MAXR	3

static const struct {
	const char *rule;
	int hour;	/* -1: takes the time of DTSTART */
} menu[] = {
	{"FREQ=DAILY;BYHOUR=6", 6},
	{"FREQ=DAILY;BYHOUR=18", 18},
	{"FREQ=WEEKLY;BYHOUR=9", 9},
	{"FREQ=DAILY;INTERVAL=3;BYHOUR=21", 21},
	{"FREQ=MONTHLY;BYMONTHDAY=1,15;BYHOUR=3", 3},
	{"FREQ=WEEKLY", -1},
};
#define NMENU	((int)(sizeof(menu) / sizeof(*menu)))

static const int counts_quick[] = {1, 3, 64, 70};
static const int counts_full[] = {1, 2, 3, 62, 63, 64, 65, 70, 130};
static const int *counts = counts_quick;
static int ncounts = 4;
static int kmax = 160;

struct ev_s {
	int nr;
	int r[MAXR];	/* menu index */
	int c[MAXR];	/* COUNT, 0 = none */
};

static int
rule_of_hour(const struct ev_s *ev, unsigned H)
{
	for (int i = 0; i < ev->nr; i++) {
		if (menu[ev->r[i]].hour == (int)H) {
			return i;
		}
	}
	return -1;
}

static const char*
cclass(int c)
{
	return c == 0 ? "none" : c < 63 ? "lt-fill" : c == 63 || c == 64 ? "fill" : "gt-fill";
}

/* the DTSTART / RRULE lines of a written calendar, on one line */
static const char*
sched_lines(const char *text)
{
	static char buf[700];
	size_t n = 0;

	buf[0] = '\0';
	for (const char *p = text; p && *p; ) {
		const char *e = strchr(p, '\n');
		const size_t l = e ? (size_t)(e - p) : strlen(p);
		if ((!strncmp(p, "DTSTART", 7) || !strncmp(p, "RRULE", 5)) && n + l + 4 < sizeof(buf)) {
			n += (size_t)snprintf(buf + n, sizeof(buf) - n, "%s%.*s", n ? " | " : "", (int)l, p);
		}
		p = e ? e + 1 : NULL;
	}
	return buf;
}

static void
run_event(const struct ev_s *ev)
{
	char lines[512], text[1024], desc[600];
	static char written[8192];
	size_t n = 0;
	bool attributable = true, all_bounded = true;
	int sum = 0, total = -1;
	bool r_total = false, r_endless = false, r_rule[MAXR] = {false};
	char sig[200], b1[32];

	n += (size_t)snprintf(lines + n, sizeof(lines) - n, "DTSTART:20240101T120000Z\n");
	for (int i = 0; i < ev->nr; i++) {
		n += (size_t)snprintf(lines + n, sizeof(lines) - n, "RRULE:%s", menu[ev->r[i]].rule);
		if (ev->c[i]) {
			n += (size_t)snprintf(lines + n, sizeof(lines) - n, ";COUNT=%d", ev->c[i]);
		}
		n += (size_t)snprintf(lines + n, sizeof(lines) - n, "\n");
		attributable &= menu[ev->r[i]].hour >= 0;
		all_bounded &= ev->c[i] > 0;
		sum += ev->c[i];
	}
	ical_wrap(text, sizeof(text), "c16rw@verif", lines);
	{
		size_t m = 0;
		for (const char *p = lines; *p && m + 2 < sizeof(desc); p++) {
			desc[m++] = *p == '\n' ? ' ' : *p;
		}
		desc[m] = '\0';
	}

	for (int k = 0; k <= kmax; k++) {
		for (int form = 0; form < 2; form++) {
			echs_task_t a, b[2];
			int before[MAXR] = {0}, after[MAXR] = {0};
			int nbefore = 0, nafter = 0, more = 0;
			size_t ntb;
			ssize_t wl;
			bool ended = false;

			vd_beat();
			if ((a = ical_task1(text)) == NULL || a->strm == NULL) {
				vd_viol("rewrite/no-task", "the event is not accepted");
				if (a) free_echs_task(a);
				return;
			}
			for (int i = 0; i < k; i++) {
				echs_event_t e = echs_evstrm_pop(a->strm);
				int r;
				if (echs_nul_event_p(e)) {
					ended = true;
					break;
				}
				nbefore++;
				if (attributable && (r = rule_of_hour(ev, e.from.H)) >= 0) {
					before[r]++;
				}
			}
			if (ended) {
				/* fewer than k occurrences altogether: k - 1 was the last position */
				total = nbefore;
				free_echs_task(a);
				goto done;
			}
			vd_sh->evals++;
			{
				const echs_task_t one[1] = {a};
				wl = c05_seria(written, sizeof(written), one, 1U, form);
			}
			free_echs_task(a);
			ntb = wl > 0 ? ical_tasks(b, 2U, written, (size_t)wl) : 0U;
			if (ntb >= 1U && b[0]->strm != NULL) {
				for (;;) {
					echs_event_t e = echs_evstrm_pop(b[0]->strm);
					int r;
					if (echs_nul_event_p(e)) {
						break;
					} else if (nafter >= CAP) {
						more = 1;
						break;
					}
					nafter++;
					if (attributable && (r = rule_of_hour(ev, e.from.H)) >= 0) {
						after[r]++;
					}
					if (nafter == 1) {
						inst_str(b1, sizeof(b1), e.from);
					}
				}
			}
			for (size_t i = 0; i < ntb; i++) {
				free_echs_task(b[i]);
			}
			vd_desc("%s-- written (%s form) after %d occurrences, read back and followed", desc, form ? "echsd checkpoint" : "echsq", k);
			if (all_bounded && nbefore + nafter > sum && !r_total) {
				r_total = true;
				snprintf(sig, sizeof(sig), "rewrite/count-total/%drules/%s", ev->nr, form ? "echsd" : "echsq");
				vd_viol(sig, "%d occurrences before the rewrite + %d%s after it, the COUNTs allow %d in total; written: %s",
					nbefore, nafter, more ? "+" : "", sum, sched_lines(written));
			}
			if (all_bounded && more && !r_endless && !r_total) {
				r_endless = true;
				snprintf(sig, sizeof(sig), "rewrite/endless/%drules/%s", ev->nr, form ? "echsd" : "echsq");
				vd_viol(sig, "the re-read stream is still going after %d occurrences; written: %s", CAP, sched_lines(written));
			}
			for (int i = 0; attributable && i < ev->nr; i++) {
				if (ev->c[i] && before[i] + after[i] > ev->c[i] && !r_rule[i]) {
					r_rule[i] = true;
					snprintf(sig, sizeof(sig), "rewrite/count-rule/%s-rule/%s-at-write/count-%s/%s", i == 0 ? "first" : "later",
						 before[i] >= ev->c[i] ? "exhausted" : before[i] ? "live" : "unstarted", cclass(ev->c[i]), form ? "echsd" : "echsq");
					vd_viol(sig, "RRULE:%s;COUNT=%d (the occurrences at %02d:00:00): %d before the rewrite + %d%s after it; written: %s",
						menu[ev->r[i]].rule, ev->c[i], menu[ev->r[i]].hour, before[i], after[i], more ? "+" : "", sched_lines(written));
				}
			}
		}
	}
done:
	if (total < 0) {
		total = kmax;
	}
	if (total >= 2) {
		if (!nocount) vd_nontrivial();
	}
	vd_count("rewrite_positions", total + 1);
	vd_sample("%s: written and read back after each of the first %d occurrences (%s), both header forms", desc, total,
		  all_bounded ? "all of them" : "a rule without COUNT goes on");
}

static void
enumerate(void)
{
	const int three = (int)vd_opt_l("three", 1);

	vd_count_cases = 0;
	nocount = (int)vd_opt_l("nocount", 0);
	if (!strcmp(vd_opt("counts", "quick"), "full")) {
		counts = counts_full;
		ncounts = (int)(sizeof(counts_full) / sizeof(*counts_full));
	}
	kmax = (int)vd_opt_l("kmax", 160);
	/* two rules, every ordered pair, first rule always with COUNT, the second with COUNT or without */
	for (int a = 0; a < NMENU; a++) {
		for (int b = 0; b < NMENU; b++) {
			if (a == b) continue;
			for (int ca = 0; ca < ncounts; ca++) {
				for (int cb = -1; cb < ncounts; cb++) {
					struct ev_s ev = {2, {a, b}, {counts[ca], cb < 0 ? 0 : counts[cb]}};
					if (!vd_next()) continue;
					vd_desc("DTSTART:20240101T120000Z RRULE:%s;COUNT=%d RRULE:%s%s%.0d", menu[a].rule, ev.c[0], menu[b].rule,
						ev.c[1] ? ";COUNT=" : "", ev.c[1]);
					vd_shape("rewrite/2rules/%s+%s", cclass(ev.c[0]), cclass(ev.c[1]));
					run_event(&ev);
				}
			}
		}
	}
	/* three rules: the hour-marked rules 0..3 in every order, small menu of count triples */
	if (three) {
		static const int tri[][3] = {{3, 1, 70}, {1, 64, 3}, {2, 3, 0}, {64, 2, 65}, {3, 0, 2}};
		for (int a = 0; a < 4; a++) {
			for (int b = 0; b < 4; b++) {
				for (int c = 0; c < 4; c++) {
					if (a == b || a == c || b == c) continue;
					for (size_t t = 0; t < sizeof(tri) / sizeof(*tri); t++) {
						struct ev_s ev = {3, {a, b, c}, {tri[t][0], tri[t][1], tri[t][2]}};
						if (!vd_next()) continue;
						vd_desc("DTSTART:20240101T120000Z RRULE:%s;COUNT=%d RRULE:%s;COUNT=%d RRULE:%s;COUNT=%d (COUNT=0: none)",
							menu[a].rule, ev.c[0], menu[b].rule, ev.c[1], menu[c].rule, ev.c[2]);
						vd_shape("rewrite/3rules/%s+%s+%s", cclass(ev.c[0]), cclass(ev.c[1]), cclass(ev.c[2]));
						run_event(&ev);
					}
				}
			}
		}
	}
}

int
main(int argc, char *argv[])
{
	return vd_main(argc, argv, enumerate);
}
