/* C05 -- a task written in one zone reads, writes and reads again the same whatever other zones were used in the
 * process before it.
 *
 * Calendars of 2..maxn events, each event one of six kinds (Europe/Berlin, America/New_York or Asia/Tokyo local time
 * x recurring DAILY;COUNT=10 or one-off), every sequence of kinds.  The calendar is read in a freshly forked image;
 * there every task's first occurrences are taken from a clone, the task is written with echs_task_icalify()
 * (checkpoint form), read back and its occurrences taken again.  Both must equal what the same event gives when it
 * is the only thing a fresh image ever reads (reference taken once per kind, each in an image of its own).
 */
#include "vdrv.h"
#include <sys/wait.h>
#include "ref/icalio.h"
#include "ref/c05_common.h"

struct kind_s {
	const char *name;
	const char *lines;
};
static const struct kind_s kinds[] = {
	{"berlin-daily", "DTSTART;TZID=Europe/Berlin:20240304T063000\nRRULE:FREQ=DAILY;COUNT=10\n"},
	{"newyork-daily", "DTSTART;TZID=America/New_York:20240304T083000\nRRULE:FREQ=DAILY;COUNT=10\n"},
	{"newyork-once", "DTSTART;TZID=America/New_York:20240305T120000\n"},
	{"berlin-once", "DTSTART;TZID=Europe/Berlin:20240306T170000\n"},
	{"tokyo-daily", "DTSTART;TZID=Asia/Tokyo:20240304T090000\nDTEND;TZID=Asia/Tokyo:20240304T093000\nRRULE:FREQ=DAILY;COUNT=10\n"},
	{"berlin-span", "DTSTART;TZID=Europe/Berlin:20240329T230000\nDTEND;TZID=Europe/Berlin:20240330T010000\nRRULE:FREQ=DAILY;COUNT=4\n"},
};
#define NK	((int)(sizeof(kinds) / sizeof(*kinds)))
#define MAXEV	4
#define NOCC	12

struct res_s {
	int n[2];			/* occurrences as read / as written and read again */
	struct c05_occ o[2][NOCC];
};
struct shm_s {
	int ntasks;
	struct res_s r[MAXEV];
};
static struct shm_s *shm;

static size_t
text_of(char *buf, size_t bsz, const int *k, int n)
{
	size_t o = (size_t)snprintf(buf, bsz, "BEGIN:VCALENDAR\nVERSION:2.0\n");
	for (int i = 0; i < n; i++) {
		o += (size_t)snprintf(buf + o, bsz - o, "BEGIN:VEVENT\nUID:zones-%d\nSUMMARY:true\n%sEND:VEVENT\n", i, kinds[k[i]].lines);
	}
	o += (size_t)snprintf(buf + o, bsz - o, "END:VCALENDAR\n");
	return o;
}

static void
child(const int *k, int n)
{
	static char text[4096], back[8192];
	echs_task_t t[MAXEV];
	size_t o = text_of(text, sizeof(text), k, n);
	int more;

	memset(shm, 0, sizeof(*shm));
	shm->ntasks = (int)ical_tasks(t, MAXEV, text, o);
	for (int i = 0; i < shm->ntasks; i++) {
		echs_evstrm_t c = t[i]->strm ? clone_echs_evstrm(t[i]->strm) : NULL;
		ssize_t bn;
		echs_task_t t2;
		shm->r[i].n[0] = c05_drain(c, shm->r[i].o[0], NOCC, &more);
		if (c) free_echs_evstrm(c);
		bn = c05_seria(back, sizeof(back), &t[i], 1, C05_FORM_ECHSD);
		t2 = bn > 0 ? ical_task1(back) : NULL;
		shm->r[i].n[1] = t2 ? c05_drain(t2->strm, shm->r[i].o[1], NOCC, &more) : -1;
		if (t2) free_echs_task(t2);
	}
}

static int
in_child(const int *k, int n)
{
	pid_t c;
	int st;
	fflush(stdout);
	if ((c = fork()) == 0) {
		child(k, n);
		_exit(0);
	}
	while (waitpid(c, &st, 0) < 0 && errno == EINTR);
	return WIFEXITED(st) && WEXITSTATUS(st) == 0;
}

static void
enumerate(void)
{
	static struct res_s ref[8];
	const int maxn = (int)vd_opt_l("maxn", 4);
	char b1[40], b2[40];

	vd_count_cases = 0;
	shm = mmap(NULL, sizeof(*shm), PROT_READ | PROT_WRITE, MAP_SHARED | MAP_ANONYMOUS, -1, 0);
	for (int k = 0; k < NK; k++) {
		if (!in_child(&k, 1) || shm->ntasks != 1 || shm->r[0].n[0] <= 0 || shm->r[0].n[0] != shm->r[0].n[1] ||
		    memcmp(shm->r[0].o[0], shm->r[0].o[1], sizeof(struct c05_occ) * (size_t)shm->r[0].n[0])) {
			if (vd_next()) {
				vd_shape("zones/precond");
				vd_desc("event %s alone", kinds[k].name);
				vd_viol("precond/alone", "event %s alone: %d tasks, %d occurrences read, %d after writing and reading again (or they differ)", kinds[k].name, shm->ntasks, shm->r[0].n[0], shm->r[0].n[1]);
			}
			return;
		}
		ref[k] = shm->r[0];
	}
	for (int n = 2; n <= maxn && n <= MAXEV; n++) {
		long nseq = 1;
		for (int i = 0; i < n; i++) nseq *= NK;
		for (long s = 0; s < nseq; s++) {
			int k[MAXEV], nzones = 0, zmask = 0;
			long x = s;
			char names[160] = "";
			if (!vd_next()) continue;
			for (int i = 0; i < n; i++, x /= NK) {
				k[i] = (int)(x % NK);
				zmask |= 1 << (strstr(kinds[k[i]].lines, "Berlin") ? 0 : strstr(kinds[k[i]].lines, "New_York") ? 1 : 2);
				snprintf(names + strlen(names), sizeof(names) - strlen(names), "%s%s", i ? ", " : "", kinds[k[i]].name);
			}
			nzones = (zmask & 1) + (zmask >> 1 & 1) + (zmask >> 2 & 1);
			vd_sh->evals++;
			vd_desc("one calendar with the events %s", names);
			vd_shape("zones/%s/n=%d", nzones > 1 ? "several-zones" : "one-zone", n);
			if (nzones > 1) vd_nontrivial();
			if (!in_child(k, n)) {
				vd_viol("crash/zones", "the image died reading or writing the calendar");
				continue;
			}
			if (shm->ntasks != n) {
				vd_viol("zones/count", "%d tasks read from %d events", shm->ntasks, n);
				continue;
			}
			for (int i = 0; i < n; i++) {
				const struct res_s *r = &shm->r[i], *w = &ref[k[i]];
				for (int ph = 0; ph < 2; ph++) {
					int bad = r->n[ph] != w->n[0];
					int j = 0;
					for (; !bad && j < w->n[0]; j++) {
						if (r->o[ph][j].from != w->o[0][j].from || r->o[ph][j].dur != w->o[0][j].dur) { bad = 1; break; }
					}
					if (bad) {
						char sig[120];
						snprintf(sig, sizeof(sig), "zones/%s/%s", ph ? "written-and-read" : "read", nzones > 1 ? "several-zones" : "one-zone");
						if (j < w->n[0] && j < r->n[ph]) {
							vd_viol(sig, "event %d (%s): occurrence %d is %s (duration %lld ms), alone it is %s (%lld ms)", i + 1, kinds[k[i]].name, j + 1,
								c05_ustr(b1, sizeof(b1), r->o[ph][j].from), (long long)r->o[ph][j].dur, c05_ustr(b2, sizeof(b2), w->o[0][j].from), (long long)w->o[0][j].dur);
						} else {
							vd_viol(sig, "event %d (%s): %d occurrences, alone %d", i + 1, kinds[k[i]].name, r->n[ph], w->n[0]);
						}
						break;
					}
				}
			}
			if (vd_want_sample() && nzones > 1) vd_sample("calendar of %s: all tasks as alone, before and after a write/read round", names);
		}
	}
}

int
main(int argc, char *argv[])
{
	return vd_main(argc, argv, enumerate);
}
