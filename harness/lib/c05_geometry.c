/* C05 sweep 3 -- buffer geometry of the serialiser.
 *
 * One event: P bytes of padding spread over SUMMARY (first, up to the longest line the parser
 * accepts), DESCRIPTION, ORGANIZER and two ATTENDEEs, while X-ECHS-IFILE/-OFILE/-EFILE and LOCATION
 * hold values that make their lines 1017, 1020, 1023 and 1015 bytes long, plus a TZID DTSTART and an
 * RRULE with long BY lists.  P runs through every value lo..hi (step), so every fdprintf()/fdwrite()
 * call site of the serialiser comes to lie on every offset around the end of the 4096-byte writer
 * buffer of fdprnt.h.  The written text must parse back to the same task: attributes, description,
 * remaining occurrences and durations.  Crashes are caught by the supervisor (ASan variant).
 *
 * With loc=200 (a short LOCATION line) and P = 0..1100 the buffer end sweeps over the small call sites
 * at the tail (UMASK ... DTSTART pieces, RRULE pieces, END:VEVENT) instead.
 *
 * case = P.   options: lo= hi= step= loc=<LOCATION line length> form=echsd|echsq k=<pops before writing>
 */
#include "vdrv.h"
#include "ref/icalio.h"
#include "ref/c05_common.h"

#define MAXLINE	1023	/* longest line (without the newline) the parser accepts */

struct fld_s {
	const char *name;
	char fill;
	int len;	/* value length */
};

static size_t
put_fld(char *buf, size_t bsz, size_t o, const char *name, char fill, int len)
{
	if (len <= 0) {
		return o;
	}
	o += (size_t)snprintf(buf + o, bsz - o, "%s:", name);
	memset(buf + o, fill, (size_t)len);
	o += (size_t)len;
	buf[o++] = '\n';
	buf[o] = '\0';
	return o;
}

static int
take(int *p, int max)
{
	const int n = *p < max ? *p : max;
	*p -= n;
	return n;
}

/* which line of TEXT (after the calendar header, which is not flushed) first fails to fit into
 * what is left of a 4096-byte buffer; the model of fdprnt.h used only to name the shape */
static void
straddler(char *out, size_t osz, const char *text)
{
	size_t bi = 0;
	int nth = 0;
	out[0] = '\0';
	for (const char *p = text, *eol; *p && (eol = strchr(p, '\n')) != NULL; p = eol + 1) {
		const size_t l = (size_t)(eol - p) + 1U;
		if (bi + l >= 4096U) {
			const char *c = memchr(p, ':', l);
			const char *s = memchr(p, ';', l);
			size_t nl = (size_t)((c && (!s || c < s) ? c : s ? s : eol) - p);
			size_t ol = strlen(out);
			if (nl > 24) nl = 24;
			if (nth++ < 2 && ol + nl + 2 < osz) {
				snprintf(out + ol, osz - ol, "%s%.*s", ol ? "+" : "", (int)nl, p);
			}
			bi = 0;
		}
		bi += l;
		if (!strncmp(p, "END:VEVENT", 10)) {
			bi = 0;
		}
	}
}

static void
diff_cb(int fld, const char *how, const char *want, const char *got, void *clo)
{
	char sig[VD_SIGLEN];
	snprintf(sig, sizeof(sig), "geom/%s/%s/%s", c05_fname[fld], how, (const char*)clo);
	vd_viol(sig, "%s: task has %.40s... (%zu bytes), written and re-read task has %.40s... (%zu bytes)",
		c05_fname[fld], want, strlen(want), got, strlen(got));
}

static void
enumerate(void)
{
	const int lo = (int)vd_opt_l("lo", 0), hi = (int)vd_opt_l("hi", 4300), step = (int)vd_opt_l("step", 1);
	const int form = !strcmp(vd_opt("form", "echsd"), "echsq") ? C05_FORM_ECHSQ : C05_FORM_ECHSD;
	const int k = (int)vd_opt_l("k", 0);
	const int loc = (int)vd_opt_l("loc", 1015);	/* length of the LOCATION line */
	static char text[16384], written[16384], pred[16384];
	static struct c05_occ oa[C05_MAXOCC + 1], ob[C05_MAXOCC + 1];

	for (int P = lo; P <= hi && !vd_stop(); P += step) {
		size_t o = 0, q = 0;
		int p = P, ls, ld, lo_, la, lb;
		char site[64];
		echs_task_t a, b[2];
		size_t nb;
		ssize_t wl;

		if (!vd_next()) {
			continue;
		}
		ls = take(&p, MAXLINE - 8);	/* SUMMARY: */
		ld = take(&p, 1000);
		lo_ = take(&p, 1000);
		la = take(&p, 1000);
		lb = take(&p, 1000);
		vd_desc("padding P=%d: SUMMARY %d, DESCRIPTION %d, ORGANIZER %d, ATTENDEE %d+%d bytes; IFILE/OFILE/EFILE/LOCATION lines "
			"1017/1020/1023/%d bytes; DTSTART;TZID=Europe/Berlin + RRULE with long lists; k=%d", P, ls, ld, lo_, la, lb, loc, k);

		o += (size_t)snprintf(text + o, sizeof(text) - o, "BEGIN:VCALENDAR\nVERSION:2.0\nX-ECHS-OWNER:1234\nBEGIN:VEVENT\nUID:c05-geom@verif\n");
		o = put_fld(text, sizeof(text), o, "SUMMARY", 'S', ls);
		o = put_fld(text, sizeof(text), o, "DESCRIPTION", 'D', ld);
		o = put_fld(text, sizeof(text), o, "ORGANIZER", 'o', lo_);
		o = put_fld(text, sizeof(text), o, "ATTENDEE", 'a', la);
		o = put_fld(text, sizeof(text), o, "ATTENDEE", 'b', lb);
		o = put_fld(text, sizeof(text), o, "X-ECHS-IFILE", 'i', 1017 - 13);
		o = put_fld(text, sizeof(text), o, "X-ECHS-OFILE", 'f', 1020 - 13);
		o = put_fld(text, sizeof(text), o, "X-ECHS-EFILE", 'e', 1023 - 13);
		o += (size_t)snprintf(text + o, sizeof(text) - o, "X-ECHS-SETUID:geomuser\nX-ECHS-SETGID:geomgroup\nX-ECHS-SHELL:/bin/sh\n");
		o = put_fld(text, sizeof(text), o, "LOCATION", 'l', loc - 9);
		o += (size_t)snprintf(text + o, sizeof(text) - o,
			"X-ECHS-UMASK:027\nX-ECHS-MAIL-RUN:1\nX-ECHS-MAIL-OUT:0\nX-ECHS-MAIL-ERR:1\nX-ECHS-MAX-SIMUL:3\n"
			"DTSTART;TZID=Europe/Berlin:20240101T060000\nDURATION:PT45M\n"
			"RRULE:FREQ=YEARLY;BYMONTH=1,2,3,4,5,6,7,8,9,10,11,12;"
			"BYMONTHDAY=1,2,3,4,5,6,7,8,9,10,11,12,13,14,15,16,17,18,19,20,21,22,23,24,25,26,27,28;"
			"BYHOUR=6,12,18;BYMINUTE=0,15,30;COUNT=600\n"
			"END:VEVENT\nEND:VCALENDAR\n");

		/* predicted shape of what the serialiser writes: its own line order, our lengths */
		q += (size_t)snprintf(pred + q, sizeof(pred) - q, "BEGIN:VEVENT\nDTSTAMP:20240101T000000Z\nUID:c05-geom@verif\n");
		q = put_fld(pred, sizeof(pred), q, "SUMMARY", 'S', ls);
		q = put_fld(pred, sizeof(pred), q, "DESCRIPTION", 'D', ld);
		q = put_fld(pred, sizeof(pred), q, "ORGANIZER", 'o', lo_);
		q = put_fld(pred, sizeof(pred), q, "ATTENDEE", 'a', la);
		q = put_fld(pred, sizeof(pred), q, "ATTENDEE", 'b', lb);
		q = put_fld(pred, sizeof(pred), q, "X-ECHS-IFILE", 'i', 1017 - 13);
		q = put_fld(pred, sizeof(pred), q, "X-ECHS-OFILE", 'f', 1020 - 13);
		q = put_fld(pred, sizeof(pred), q, "X-ECHS-EFILE", 'e', 1023 - 13);
		q += (size_t)snprintf(pred + q, sizeof(pred) - q, "X-ECHS-SETUID:geomuser\nX-ECHS-SETGID:geomgroup\nX-ECHS-SHELL:/bin/sh\n");
		q = put_fld(pred, sizeof(pred), q, "LOCATION", 'l', loc - 9);
		q += (size_t)snprintf(pred + q, sizeof(pred) - q, "X-ECHS-UMASK:027\nX-ECHS-MAIL-RUN:1\nX-ECHS-MAIL-OUT:0\nX-ECHS-MAIL-ERR:1\n"
				      "X-ECHS-MAX-SIMUL:3\nDTSTART;TZID=Europe/Berlin:20240101T060000\nDURATION:PT45M\nRRULE:x\nEND:VEVENT\n");
		straddler(site, sizeof(site), pred);
		vd_shape("geom/site=%s", site[0] ? site : "none");

		if ((a = ical_task1(text)) == NULL || a->strm == NULL) {
			vd_viol("geom/task/rejected/source", "the parser yields no task for the source text");
			continue;
		}
		for (int i = 0; i < k; i++) {
			(void)echs_evstrm_pop(a->strm);
		}
		{
			const echs_task_t one[1] = {a};
			wl = c05_seria(written, sizeof(written), one, 1U, form);
		}
		/* name the site from what was really written */
		if (wl > 0) {
			const char *ev = strstr(written, "BEGIN:VEVENT");
			char site2[64];
			straddler(site2, sizeof(site2), ev ? ev : written);
			if (site2[0]) {
				char cn[40];
				snprintf(cn, sizeof(cn), "straddle@%.28s", site2);
				vd_count(cn, 1);
				vd_nontrivial();
				snprintf(site, sizeof(site), "%s", site2);
			} else {
				snprintf(site, sizeof(site), "none");
			}
		}
		nb = wl > 0 ? ical_tasks(b, 2U, written, (size_t)wl) : 0U;
		if (vd_want_sample() && P >= 700) {
			vd_sample("P=%d: %zd bytes written, buffer end falls on line(s) %s, %zu task read back", P, wl, site, nb);
		}
		if (nb != 1U) {
			char sig[VD_SIGLEN];
			snprintf(sig, sizeof(sig), "geom/task/%s/site=%s", nb ? "split" : "rejected", site);
			vd_viol(sig, "one task written (%zd bytes), %zu read back", wl, nb);
		} else {
			struct c05_obs xa, xb;
			char ctx[80];
			int ma, mb, na, nbo, i;

			snprintf(ctx, sizeof(ctx), "site=%s", site);
			c05_observe(&xa, a);
			c05_observe(&xb, b[0]);
			c05_cmp_obs(&xa, &xb, C05_CMP_UID | (form == C05_FORM_ECHSD ? C05_CMP_OWNER : 0), diff_cb, ctx);
			if ((a->desc != NULL) != (b[0]->desc != NULL) || (a->desc && strcmp(a->desc, b[0]->desc))) {
				char sig[VD_SIGLEN];
				snprintf(sig, sizeof(sig), "geom/DESCRIPTION/changed/%s", ctx);
				vd_viol(sig, "DESCRIPTION: %zu bytes in the task, %zu bytes read back", a->desc ? strlen(a->desc) : 0U,
					b[0]->desc ? strlen(b[0]->desc) : 0U);
			}
			na = c05_drain(a->strm, oa, C05_MAXOCC, &ma);
			nbo = c05_drain(b[0]->strm, ob, C05_MAXOCC, &mb);
			for (i = 0; i < na && i < nbo && oa[i].from == ob[i].from && oa[i].dur == ob[i].dur; i++);
			if (i < na || i < nbo || ma != mb) {
				char sig[VD_SIGLEN], b1[32], b2[32];
				snprintf(sig, sizeof(sig), "geom/occurrences/changed/%s", ctx);
				vd_viol(sig, "remaining occurrence #%d: original %s, re-read %s (%d vs %d)", i,
					i < na ? c05_ustr(b1, sizeof(b1), oa[i].from) : "(end)",
					i < nbo ? c05_ustr(b2, sizeof(b2), ob[i].from) : "(end)", na, nbo);
			}
		}
		for (size_t i = 0; i < nb; i++) {
			free_echs_task(b[i]);
		}
		free_echs_task(a);
	}
}

int
main(int argc, char *argv[])
{
	return vd_main(argc, argv, enumerate);
}
