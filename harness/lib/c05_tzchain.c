/* C05 -- a zoned task checkpointed after every run, in ONE process, always describes the occurrences not yet consumed.
 *
 * echsd writes the live task (echs_task_icalify, checkpoint form) after every run and may be restarted from that text
 * at any time.  Whatever earlier conversions of the same zone left behind in process-wide state (the per-zone offset
 * range remembered by the zone reader, interned zones, the writer's buffers) is then in effect when the next position
 * is written.  The other C05 sweeps parse the original text afresh for every position k, which re-primes that state
 * with DTSTART's own range; here a stream is WALKED and written at every position without starting over.
 *
 * Streams: DTSTART;TZID=<zone>:<start>T<hhmm>00, DURATION:PT45M, RRULE:FREQ=DAILY or WEEKLY, for
 *   zones   Europe/Berlin, America/New_York, Australia/Sydney (southern), Europe/London
 *   starts  2024-01-14 and 2024-07-14 (Sundays, so the WEEKLY streams fall on the switch days; one start in each
 *           half of the zone's year)
 *   times   every half hour 00:00 .. 04:00 wall clock (the hours in which all four zones switch)
 * n positions each (default 300: DAILY covers both switches from either start, WEEKLY nearly six years).
 *
 * Modes (each case runs in an image forked for it alone, so the outcome does not depend on the sharding):
 *   walk   at every position k: write the live task, read the text back at once, compare; pop one occurrence
 *   later  write at every position while walking (nothing is read in between), read all texts back afterwards
 *   chain  the text written at position k is what the walk continues from: read it, compare, pop one, write again
 *          (a daemon restarted after every run)
 * Oracle (differential): the task read back from the text of position k yields the next `ncmp' occurrences and
 * durations of the live stream from k on (taken once from a clone of the freshly read stream).  Whether those
 * occurrences are the right ones is C01/C07's matter.
 * Not judged (classified with the C library's reading of the same zone file, never with the code under test):
 * occurrences whose stated time does not exist or exists twice on their day, and positions whose next occurrence
 * falls on a day without the stated time (gapdays=1 judges those positions too; the unchanged tree then reports
 * tzchain/remaining/<mode>/<FREQ>/at-skipped-hour: the moved instance is written and the series re-read from it keeps the moved time).
 */
#include "vdrv.h"
#include <sys/wait.h>
#include "ref/icalio.h"
#include "ref/c05_common.h"
#include "ref/civil.h"

static const char *const zones[] = {"Europe/Berlin", "America/New_York", "Australia/Sydney", "Europe/London"};
static const char *const starts[] = {"20240114", "20240714"};
static const char *const freqs[] = {"DAILY", "WEEKLY"};
static const char *const modes[] = {"walk", "later", "chain"};
static const char *const forms[] = {"echsq-form", "checkpoint-form"};
#define NZ	4
#define NS	2
#define NT	9	/* 00:00, 00:30 .. 04:00 */
#define NF	2
#define NM	3
#define NFORM	2
#define MAXN	1200
#define MAXCMP	8
#define TXTSZ	1024

static struct c05_occ ref[MAXN + MAXCMP + 1];
static int nref;
/* how the stated wall-clock time sits on the local day of each live occurrence, by the C library's reading of the
 * same zone file (TZ is set in the image of the case; the code under test never consults the C library for time) */
enum {W_PLAIN, W_FOLD, W_GAP};
static unsigned char wcls[MAXN + MAXCMP + 1];
static long nskip_gap, nskip_occ;

static time_t
epoch_of(uint64_t u)
{
	echs_instant_t i;
	i.u = u;
	return (time_t)(cv_days_from_civil((int)i.y, (int)i.m, (int)i.d) * 86400 + i.H * 3600 + i.M * 60 + i.S);
}

/* the stated time HH:MI on the local day on which instant U falls: has no preimage (gap), one, or two (fold);
 * preimages are looked for within 2 h of U on the half hours, which covers shifts of 30, 60, 90 and 120 minutes */
static int
wallclass(uint64_t u, int hh, int mi)
{
	const time_t t = epoch_of(u);
	struct tm at, x;
	int n = 0;

	localtime_r(&t, &at);
	for (int d = -4; d <= 4; d++) {
		const time_t c = t + d * 1800;
		localtime_r(&c, &x);
		n += x.tm_year == at.tm_year && x.tm_yday == at.tm_yday && x.tm_hour == hh && x.tm_min == mi && x.tm_sec == 0;
	}
	return n == 0 ? W_GAP : n == 1 ? W_PLAIN : W_FOLD;
}

static unsigned
tod(uint64_t u)
{
	echs_instant_t i;
	i.u = u;
	return i.H * 3600U + i.M * 60U + i.S;
}

/* where position K sits relative to a change of the zone's offset, judged by the live stream alone: the wall-clock
 * time is constant, so the UTC time of day moves exactly where the offset does */
static const char*
posclass(int k)
{
	if (wcls[k] == W_FOLD) {
		return "at-repeated-hour";
	} else if (wcls[k] == W_GAP) {
		return "at-skipped-hour";
	} else if (k > 0 && tod(ref[k].from) != tod(ref[k - 1].from)) {
		return "first-after-switch";
	} else if (k + 1 < nref && tod(ref[k].from) != tod(ref[k + 1].from)) {
		return "last-before-switch";
	}
	return "plain";
}

struct ctx_s {
	const char *mode, *freq, *form;
	int nrep;
};
static int judge_gapdays;

/* a position whose next occurrence falls on a day without the stated time: the live stream has moved that instance,
 * the text can only name the moved time and whether the series then keeps the stated or the moved time is read both
 * ways (C07 leaves such DTSTARTs unjudged); left out unless gapdays=1 */
static int
unjudged_position(int k)
{
	if (wcls[k] == W_GAP && !judge_gapdays) {
		nskip_gap++;
		return 1;
	}
	return 0;
}

/* compare what TEXT reads back to with the live stream from K on; returns 0 if equal */
static int
check_text(struct ctx_s *cx, const char *text, int k, int ncmp, echs_task_t *keep)
{
	static struct c05_occ got[MAXCMP + 1];
	echs_task_t t2 = ical_task1(text);
	echs_evstrm_t s = NULL;
	char sig[160], b1[40], b2[40];
	int more, n = 0, bad = 0, want = nref - k < ncmp ? nref - k : ncmp;

	if (t2 != NULL && t2->strm != NULL) {
		s = keep ? clone_echs_evstrm(t2->strm) : t2->strm;
		n = c05_drain(s, got, ncmp, &more);
		if (keep && s) free_echs_evstrm(s);
	}
	if (t2 == NULL) {
		bad = 1;
		if (cx->nrep++ < 3) {
			snprintf(sig, sizeof(sig), "tzchain/rejected/%s/%s/%s", cx->mode, cx->freq, posclass(k));
			vd_viol(sig, "position %d (next occurrence %s): the written text yields no task: %.300s", k, c05_ustr(b1, sizeof(b1), ref[k].from), text);
		}
	} else {
		int j = 0;
		for (; j < want && j < n; j++) {
			if (wcls[k + j] != W_PLAIN) {
				/* the stated time does not exist or exists twice on that day: which instant it is
				 * is read both ways (C07), the text cannot say; not judged */
				nskip_occ++;
				continue;
			}
			if (got[j].from != ref[k + j].from || got[j].dur != ref[k + j].dur) break;
		}
		if (j < want) {
			const char *dt = strstr(text, "DTSTART");
			bad = 1;
			if (cx->nrep++ < 3) {
				const int isdur = j < n && got[j].from == ref[k + j].from;
				snprintf(sig, sizeof(sig), "tzchain/%s/%s/%s/%s", isdur ? "durations" : "remaining", cx->mode, cx->freq, posclass(k));
				if (j < n) {
					vd_viol(sig, "written at position %d (%s, %s): occurrence %d after it is %s (%lld ms) in the live stream, %s (%lld ms) when the text is read back; written %.60s",
						k, cx->form, posclass(k), j, c05_ustr(b1, sizeof(b1), ref[k + j].from), (long long)ref[k + j].dur,
						c05_ustr(b2, sizeof(b2), got[j].from), (long long)got[j].dur, dt ? dt : "(no DTSTART)");
				} else {
					vd_viol(sig, "written at position %d (%s, %s): the text read back yields %d occurrences, the live stream has at least %d more; written %.60s",
						k, cx->form, posclass(k), n, want, dt ? dt : "(no DTSTART)");
				}
			}
		}
	}
	if (keep) {
		*keep = t2;
	} else if (t2) {
		free_echs_task(t2);
	}
	return bad;
}

static void
run_case(int z, int st, int tm, int f, int m, int form, int n, int ncmp)
{
	static char text[TXTSZ], back[8192];
	struct ctx_s cx = {modes[m], freqs[f], forms[form], 0};
	echs_task_t t;
	echs_evstrm_t c;
	int more;

	snprintf(back, sizeof(back), "DTSTART;TZID=%s:%sT%02d%02d00\nDURATION:PT45M\nRRULE:FREQ=%s\n", zones[z], starts[st], tm / 2, tm % 2 * 30, freqs[f]);
	ical_wrap(text, sizeof(text), "tzchain@example.com", back);
	if ((t = ical_task1(text)) == NULL || t->strm == NULL) {
		vd_viol("tzchain/precond/unread", "the event does not read");
		return;
	}
	c = clone_echs_evstrm(t->strm);
	nref = c05_drain(c, ref, n + ncmp, &more);
	free_echs_evstrm(c);
	if (nref < n + ncmp) {
		vd_viol("tzchain/precond/short", "the unbounded stream ends after %d occurrences", nref);
		return;
	}
	{
		char tz[80];
		snprintf(tz, sizeof(tz), ":%s", zones[z]);
		setenv("TZ", tz, 1);
		tzset();
		for (int i = 0; i < nref; i++) {
			wcls[i] = (unsigned char)wallclass(ref[i].from, tm / 2, tm % 2 * 30);
		}
	}
	if (m == 0) {
		for (int k = 0; k < n; k++) {
			echs_event_t e;
			ssize_t bn = c05_seria(back, sizeof(back), &t, 1, form);
			vd_sh->evals++;
			if (bn <= 0) {
				vd_viol("tzchain/precond/write", "nothing written at position %d", k);
				break;
			}
			if (!unjudged_position(k)) {
				(void)check_text(&cx, back, k, ncmp, NULL);
			}
			e = echs_evstrm_pop(t->strm);
			if (e.from.u != ref[k].from) {
				vd_viol("tzchain/precond/live", "the live stream's occurrence %d differs from its clone's", k);
				break;
			}
			if (!(k & 31)) vd_beat();
		}
	} else if (m == 1) {
		char *all = malloc((size_t)n * TXTSZ);
		int k;
		for (k = 0; k < n; k++) {
			ssize_t bn = c05_seria(back, sizeof(back), &t, 1, form);
			if (bn <= 0 || bn >= TXTSZ) {
				vd_viol("tzchain/precond/write", "%zd bytes written at position %d", bn, k);
				break;
			}
			memcpy(all + (size_t)k * TXTSZ, back, (size_t)bn + 1);
			(void)echs_evstrm_pop(t->strm);
		}
		for (int i = 0; i < k; i++) {
			vd_sh->evals++;
			if (!unjudged_position(i)) {
				(void)check_text(&cx, all + (size_t)i * TXTSZ, i, ncmp, NULL);
			}
			if (!(i & 31)) vd_beat();
		}
		free(all);
	} else {
		echs_task_t cur = t;
		t = NULL;
		for (int k = 0; k < n && cur != NULL; k++) {
			ssize_t bn;
			if (unjudged_position(k)) {
				/* no restart on such a day: the chain goes on from the task in hand */
				if (cur->strm != NULL) (void)echs_evstrm_pop(cur->strm);
				continue;
			}
			bn = c05_seria(back, sizeof(back), &cur, 1, form);
			vd_sh->evals++;
			free_echs_task(cur);
			cur = NULL;
			if (bn <= 0) {
				vd_viol("tzchain/precond/write", "nothing written at position %d", k);
				break;
			}
			if (check_text(&cx, back, k, ncmp, &cur)) {
				/* everything behind a wrong link is wrong, one report */
				break;
			}
			if (cur != NULL && cur->strm != NULL) {
				(void)echs_evstrm_pop(cur->strm);
			}
			if (!(k & 31)) vd_beat();
		}
		if (cur) free_echs_task(cur);
	}
	if (t) free_echs_task(t);
	vd_count("unjudged_gapday_positions", nskip_gap);
	vd_count("unjudged_gap_or_fold_occurrences", nskip_occ);
	{
		long nf = 0;
		for (int i = 0; i < n; i++) nf += wcls[i] == W_FOLD;
		vd_count("fold_positions_judged_on_later_occs", nf);
	}
	if (!cx.nrep && vd_want_sample() && m == 2) {
		char b1[40], b2[40];
		vd_sample("%s %s %02d:%02d from %s, %s, %s: %d positions written and read back, live stream %s .. %s", zones[z], freqs[f], tm / 2, tm % 2 * 30,
			  starts[st], modes[m], forms[form], n, c05_ustr(b1, sizeof(b1), ref[0].from), c05_ustr(b2, sizeof(b2), ref[n - 1].from));
	}
}

static void
enumerate(void)
{
	int n = (int)vd_opt_l("n", 300);
	int ncmp = (int)vd_opt_l("ncmp", 5);

	judge_gapdays = (int)vd_opt_l("gapdays", 0);
	if (n > MAXN) n = MAXN;
	if (ncmp > MAXCMP) ncmp = MAXCMP;
	vd_count_cases = 0;
	for (int m = 0; m < NM; m++)
	for (int form = NFORM - 1; form >= 0; form--)
	for (int f = 0; f < NF; f++)
	for (int st = 0; st < NS; st++)
	for (int z = 0; z < NZ; z++)
	for (int tm = 0; tm < NT; tm++) {
		pid_t c;
		int status;

		if (!vd_next()) continue;
		vd_desc("DTSTART;TZID=%s:%sT%02d%02d00 DURATION:PT45M RRULE:FREQ=%s, %s, %s, %d positions", zones[z], starts[st], tm / 2, tm % 2 * 30, freqs[f], modes[m], forms[form], n);
		vd_shape("tzchain/%s/%s", modes[m], freqs[f]);
		vd_nontrivial();
		fflush(stdout);
		if ((c = fork()) == 0) {
			run_case(z, st, tm, f, m, form, n, ncmp);
			fflush(stdout);
			_exit(0);
		}
		while (waitpid(c, &status, 0) < 0 && errno == EINTR);
		if (c < 0 || !WIFEXITED(status) || WEXITSTATUS(status)) {
			char sig[96];
			snprintf(sig, sizeof(sig), "crash/tzchain/%s/%s", modes[m], freqs[f]);
			vd_viol(sig, "the image walking the stream died (status %#x)", status);
		}
	}
}

int
main(int argc, char *argv[])
{
	return vd_main(argc, argv, enumerate);
}
