/* C02 -- long EXDATE / RDATE lists in every written order of a fixed family.
 *
 * The recurrence set is a set: which values an EXDATE / RDATE list holds decides the occurrences, not the order
 * they are written in nor how they are spread over lines.  Lists of n = nmin..nmax values (longer than anything a
 * sorting routine treats as a small input) are written in the orders
 *   asc, desc, ends (v0 v[n-1] v1 v[n-2] ...), evenodd (v0 v2 v4 ... v1 v3 ...),
 *   blockdesc b (blocks of b consecutive values, the blocks latest first, ascending inside; b in 4 7 10 16 25),
 *   stride s (v[i*s mod n]; s in 3 7 11 coprime to n),
 *   rot p for EVERY p in 1..n-1 (v[p..n) then v[0..p): the later dates first, then the earlier ones)
 * (an order that repeats the sequence of an earlier one for the same n is skipped), in two layouts (at most 40
 * resp. 7 values a line; for rot the first line break is at the split), for two value sets (run: n consecutive
 * days; spread: days 2 + (i*37 mod P), P prime) and DATE-TIME (UTC) and DATE values.
 *
 * Base event: DTSTART 2000-01-01 (T12:00:00Z), zero duration,
 *   mode=exdate: RRULE:FREQ=DAILY;COUNT=NB, EXDATE names the instances of the listed days
 *   mode=rdate : RRULE:FREQ=DAILY;INTERVAL=2;COUNT=NB (even days), RDATE lists odd days (never a rule instance)
 *   mode=both  : as rdate, plus an EXDATE list in the same order family naming every second listed RDATE and the
 *                rule instance before each of the others
 * Oracle (closed form, no code under test): delivered starts == sorted((rule days u RDATE days) minus EXDATE days),
 * each once.  The list-free base event is checked first (precond/base).
 *
 * Signatures: <what>/<mode>/<order class>/<n<=32|n33-64|n65+>/<vt>
 * options: mode=exdate|rdate|both  nmin=1 nmax=100 nstep=1  rot=all|few  layouts=2
 */
#include "vdrv.h"
#include <stdbool.h>
#include "ref/icalio.h"
#include "ref/c02_cal.h"
#include "evstrm.h"
#include "event.h"

#define DAY	C2_DAY
#define MAXN	1400
#define MAXDAYS	(2 * MAXN + 64)

enum {M_EXDATE, M_RDATE, M_BOTH};
enum {O_ASC, O_DESC, O_ENDS, O_EVENODD, O_BLOCKDESC, O_STRIDE, O_ROT};
static const char *oname[] = {"asc", "desc", "ends", "evenodd", "blockdesc", "stride", "rot"};
static const char *vtname[] = {"dt", "date"};
static const char *mname[] = {"exdate", "rdate", "both"};

static int
gcd(int a, int b)
{
	while (b) {
		int t = a % b; a = b; b = t;
	}
	return a;
}

static bool
prime_p(int p)
{
	for (int d = 2; d * d <= p; d++) {
		if (p % d == 0) return false;
	}
	return p > 1;
}

/* permutation of 0..n-1 for order kind O with parameter PAR; false if not applicable */
static bool
mkperm(int *pi, int n, int o, int par)
{
	switch (o) {
	case O_ASC:
		for (int i = 0; i < n; i++) pi[i] = i;
		return true;
	case O_DESC:
		for (int i = 0; i < n; i++) pi[i] = n - 1 - i;
		return n > 1;
	case O_ENDS:
		for (int i = 0; i < n; i++) pi[i] = i % 2 ? n - 1 - i / 2 : i / 2;
		return n > 2;
	case O_EVENODD: {
		int j = 0;
		for (int i = 0; i < n; i += 2) pi[j++] = i;
		for (int i = 1; i < n; i += 2) pi[j++] = i;
		return n > 2;
	}
	case O_BLOCKDESC: {
		int j = 0;
		if (n <= par) return false;
		/* blocks counted from the start, the last (possibly short) block is written first */
		for (int b = (n - 1) / par; b >= 0; b--) {
			for (int i = b * par; i < n && i < (b + 1) * par; i++) pi[j++] = i;
		}
		return true;
	}
	case O_STRIDE:
		if (n <= par || gcd(n, par) != 1) return false;
		for (int i = 0; i < n; i++) pi[i] = (int)((long)i * par % n);
		return true;
	default:
		if (par < 1 || par >= n) return false;
		for (int i = 0; i < n; i++) pi[i] = (par + i) % n;
		return true;
	}
}

/* write NAME lines holding the days D[PI[0..n)] (day offsets from O0), at most PERLINE values a line,
 * an extra line break in front of position BRK (if > 0) */
static size_t
put_list(char *buf, size_t bsz, const char *name, int vt, int64_t o0, const int *d, const int *pi, int n, int perline, int brk)
{
	size_t o = 0;
	int online = 0;
	char ts[32];

	for (int i = 0; i < n; i++) {
		if (online == perline || (i == brk && online)) {
			o += (size_t)snprintf(buf + o, bsz - o, "\n");
			online = 0;
		}
		c2_fmt(ts, sizeof(ts), o0 + (int64_t)d[pi[i]] * DAY, vt);
		o += (size_t)snprintf(buf + o, bsz - o, "%s%s%s", online ? "," : name, online ? "" : vt ? ";VALUE=DATE:" : ":", ts);
		online++;
	}
	if (n) {
		o += (size_t)snprintf(buf + o, bsz - o, "\n");
	}
	return o;
}

static char body[96 * 1024], text[100 * 1024];
static int64_t got[MAXDAYS + 8];

static int
pop_all(const char *lines, int vt, int max, int *bad)
{
	echs_task_t t;
	int n = 0;

	*bad = 0;
	snprintf(text, sizeof(text), "BEGIN:VCALENDAR\nVERSION:2.0\nBEGIN:VEVENT\nUID:c02longlist@verif\nSUMMARY:true\n%sEND:VEVENT\nEND:VCALENDAR\n", lines);
	if ((t = ical_task1(text)) == NULL) {
		return -1;
	}
	if (t->strm != NULL) {
		for (; n < max; n++) {
			echs_event_t e = echs_evstrm_pop(t->strm);
			int ad;
			if (echs_nul_event_p(e)) break;
			got[n] = c2_key(e.from, &ad);
			if (got[n] < 0 || ad != (vt == 1) || e.dur.d != 0) *bad = 1;
		}
	}
	free_echs_task(t);
	return n;
}

static void
enumerate(void)
{
	const char *ms = vd_opt("mode", "exdate");
	const int mode = !strcmp(ms, "rdate") ? M_RDATE : !strcmp(ms, "both") ? M_BOTH : M_EXDATE;
	const int nmin = (int)vd_opt_l("nmin", 1), nmax = (int)vd_opt_l("nmax", 100), nstep = (int)vd_opt_l("nstep", 1);
	const bool rotall = strcmp(vd_opt("rot", "all"), "few") != 0;
	const int nlay = (int)vd_opt_l("layouts", 2);
	static const int perline[] = {40, 7};
	int P, NB;
	const int64_t epoch0 = c2_dfc(2000, 1, 1) * DAY;
	static int days[MAXN], xdays[MAXN], pi[MAXN], (*seen)[MAXN];
	static unsigned char isrule[MAXDAYS], isrd[MAXDAYS], isx[MAXDAYS];
	int nseen;

	if (nmax > MAXN - 64 || nmin < 1 || nstep < 1) {
		fprintf(stderr, "c02_longlist: 1 <= nmin, nmax <= %d\n", MAXN - 64);
		exit(2);
	}
	for (P = nmax + 10; !prime_p(P) || P == 37; P++);
	NB = P + 5;	/* day offsets 0..NB-1 (exdate) resp. 0..2NB-1 (rdate, both) */
	vd_count_cases = 0;
	seen = malloc(16 * sizeof(*seen));

	for (int vt = 0; vt < 2; vt++) {
		const int64_t o0 = epoch0 + (vt ? 0 : 12 * 3600);
		const int span = mode == M_EXDATE ? NB : 2 * NB;
		char head[128], ts[32];
		bool baseok;
		int bad;

		c2_fmt(ts, sizeof(ts), o0, vt);
		snprintf(head, sizeof(head), "DTSTART%s:%s\nRRULE:FREQ=DAILY%s;COUNT=%d\n", vt ? ";VALUE=DATE" : "", ts, mode == M_EXDATE ? "" : ";INTERVAL=2", NB);
		memset(isrule, 0, sizeof(isrule));
		for (int i = 0; i < NB; i++) isrule[mode == M_EXDATE ? i : 2 * i] = 1;
		{
			int ng = pop_all(head, vt, MAXDAYS, &bad);
			baseok = ng == NB && !bad;
			for (int i = 0; baseok && i < NB; i++) {
				baseok = got[i] == o0 + (int64_t)(mode == M_EXDATE ? i : 2 * i) * DAY;
			}
		}
		if (!baseok) {
			if (vd_next()) {
				char sig[VD_SIGLEN];
				vd_desc("%s", head);
				vd_shape("longlist/%s/base/%s", mname[mode], vtname[vt]);
				snprintf(sig, sizeof(sig), "precond/base/%s/%s", mname[mode], vtname[vt]);
				vd_viol(sig, "the event without lists does not deliver its %d rule instances", NB);
			}
			continue;
		}

		for (int setk = 0; setk < 2; setk++) {
		for (int n = nmin; n <= nmax; n += nstep) {
			/* the listed days, ascending */
			for (int i = 0; i < n; i++) {
				int d = setk ? 2 + (int)((long)i * 37 % P) : 5 + i;
				days[i] = mode == M_EXDATE ? d : 2 * d + 1;
			}
			for (int i = 1; i < n; i++) {
				for (int j = i; j > 0 && days[j - 1] > days[j]; j--) {
					int t = days[j]; days[j] = days[j - 1]; days[j - 1] = t;
				}
			}
			if (mode == M_BOTH) {
				/* every second listed RDATE day, and the rule day before each of the others */
				for (int i = 0; i < n; i++) xdays[i] = i % 2 ? days[i] - 1 : days[i];
			}
			nseen = 0;
			for (int o = 0; o <= O_ROT; o++) {
			static const int bpar[] = {4, 7, 10, 16, 25}, spar[] = {3, 7, 11};
			const int npar = o == O_BLOCKDESC ? 5 : o == O_STRIDE ? 3 : o == O_ROT ? n - 1 : 1;
			for (int pq = 0; pq < npar; pq++) {
				const int par = o == O_BLOCKDESC ? bpar[pq] : o == O_STRIDE ? spar[pq] : o == O_ROT ? pq + 1 : 0;
				bool dupe = false;

				if (o == O_ROT && !rotall && !(par == 1 || par == n / 3 || par == n / 2 || par == n - 1 || par == n - n / 4)) continue;
				if (!mkperm(pi, n, o, par)) continue;
				for (int q = 0; q < nseen && !dupe; q++) dupe = !memcmp(seen[q], pi, (size_t)n * sizeof(*pi));
				if (dupe) continue;
				if (o != O_ROT && nseen < 16) memcpy(seen[nseen++], pi, (size_t)n * sizeof(*pi));
				for (int lay = 0; lay < nlay && lay < 2; lay++) {
					size_t z;
					int ng, nw = 0, viol = 0;
					char sig[VD_SIGLEN], tail[96];
					const char *ncls = n <= 32 ? "n<=32" : n <= 64 ? "n33-64" : "n65+";

					/* a layout that gives the same text as the first one */
					if (lay && (o == O_ROT ? n - par <= perline[1] && par <= perline[1] : n <= perline[1])) continue;
					if (!vd_next()) continue;
					vd_sh->evals++;
					z = (size_t)snprintf(body, sizeof(body), "%s", head);
					if (mode != M_EXDATE) {
						z += put_list(body + z, sizeof(body) - z, "RDATE", vt, o0, days, pi, n, perline[lay], o == O_ROT ? n - par : 0);
					}
					if (mode != M_RDATE) {
						z += put_list(body + z, sizeof(body) - z, "EXDATE", vt, o0, mode == M_BOTH ? xdays : days, pi, n, perline[lay], o == O_ROT ? n - par : 0);
					}
					{
						char f3[3][32], ps[16] = "";
						if (par) snprintf(ps, sizeof(ps), " %d", par);
						const int *dd = mode == M_RDATE ? days : mode == M_BOTH ? xdays : days;
						for (int i = 0; i < 3; i++) c2_fmt(f3[i], sizeof(f3[i]), o0 + (int64_t)dd[pi[i < n ? i : 0]] * DAY, vt);
						vd_desc("%s | %s%s of n=%d values, set %s (%s), order %s%s, at most %d values a line%s; first values %s %s %s",
							head, mode == M_BOTH ? "RDATE and " : "", mode == M_RDATE ? "RDATE" : "EXDATE", n,
							setk ? "spread" : "run", setk ? "days 2+(i*37 mod P) from DTSTART" : "days 5.. from DTSTART",
							oname[o], ps, perline[lay], o == O_ROT ? ", line break at the split" : "", f3[0], f3[1], f3[2]);
						/* the two lines of the base event, then the recipe of the list(s) */
						for (char *q = vd_sh->desc; *q; q++) if (*q == '\n') *q = q[1] == ' ' ? ';' : ' ';
					}
					vd_shape("longlist/%s/%s/%s/%s", mname[mode], oname[o], ncls, vtname[vt]);
					snprintf(tail, sizeof(tail), "%s/%s/%s/%s", mname[mode], oname[o], ncls, vtname[vt]);
					if (n > 32 && o != O_ASC) vd_nontrivial();

					memset(isrd, 0, sizeof(isrd));
					memset(isx, 0, sizeof(isx));
					for (int i = 0; i < n; i++) {
						if (mode != M_EXDATE) isrd[days[i]] = 1;
						if (mode != M_RDATE) isx[mode == M_BOTH ? xdays[i] : days[i]] = 1;
					}
					for (int d = 0; d < span; d++) nw += (isrule[d] || isrd[d]) && !isx[d];

					ng = pop_all(body, vt, MAXDAYS, &bad);
					if (ng < 0) {
						snprintf(sig, sizeof(sig), "rejected/%s", tail);
						vd_viol(sig, "no task for a well-formed event");
						continue;
					}
					if (vd_want_sample() && n > 40 && o != O_ASC) vd_sample("%s => %d occurrences", vd_sh->desc, ng);
					if (bad) {
						snprintf(sig, sizeof(sig), "event-shape/%s", tail);
						vd_viol(sig, "an occurrence with an out-of-shape instant, the wrong value type or a duration");
						continue;
					}
					if (ng >= MAXDAYS) {
						snprintf(sig, sizeof(sig), "endless/%s", tail);
						vd_viol(sig, "still delivering after %d occurrences (%d expected)", ng, nw);
						continue;
					}
					/* walk the delivered starts */
					static unsigned char cnt[MAXDAYS];
					memset(cnt, 0, sizeof(cnt));
					for (int i = 0; i < ng; i++) {
						const int64_t off = got[i] - o0;
						const int d = (int)(off / DAY);
						if (i && got[i] < got[i - 1] && !(viol & 1)) {
							viol |= 1;
							c2_fmt(ts, sizeof(ts), got[i], vt);
							snprintf(sig, sizeof(sig), "order/%s", tail);
							vd_viol(sig, "occurrence %d (%s) lies before occurrence %d", i, ts, i - 1);
						}
						if (off < 0 || off % DAY || d >= span || !(isrule[d] || isrd[d])) {
							if (!(viol & 2)) {
								viol |= 2;
								c2_fmt(ts, sizeof(ts), got[i], vt);
								snprintf(sig, sizeof(sig), "spurious/%s", tail);
								vd_viol(sig, "%s is neither a rule instance nor listed as RDATE (%d delivered, %d expected)", ts, ng, nw);
							}
							continue;
						}
						if (isx[d] && !(viol & 4)) {
							viol |= 4;
							c2_fmt(ts, sizeof(ts), got[i], vt);
							snprintf(sig, sizeof(sig), "not-excluded/%s", tail);
							vd_viol(sig, "%s is named by the EXDATE list but delivered (%d delivered, %d expected)", ts, ng, nw);
						}
						if (cnt[d]++ && !isx[d] && !(viol & 8)) {
							viol |= 8;
							c2_fmt(ts, sizeof(ts), got[i], vt);
							snprintf(sig, sizeof(sig), "dup/%s", tail);
							vd_viol(sig, "%s is delivered more than once", ts);
						}
					}
					for (int d = 0; d < span; d++) {
						if ((isrule[d] || isrd[d]) && !isx[d] && !cnt[d]) {
							c2_fmt(ts, sizeof(ts), o0 + (int64_t)d * DAY, vt);
							snprintf(sig, sizeof(sig), "%s/%s", isrule[d] ? "wrongly-dropped" : "rdate-missing", tail);
							vd_viol(sig, "%s is named by no exception but not delivered (%d delivered, %d expected)", ts, ng, nw);
							break;
						}
					}
				}
			}}
		}}
	}
}

int
main(int argc, char *argv[])
{
	return vd_main(argc, argv, enumerate);
}
