/* C20 -- echs_instant_sort / echs_event_sort return a stable ordering
 * permutation of their input.
 *
 * An input array is described by a sequence of small integers (`ranks')
 * into an alphabet of instants that is written down in chronological order
 * (earliest first; an all-day value before the timed values of its day), so
 * the rank IS the reference order and the expected output is a stable
 * counting sort by rank.  Events carry their original index in oid/dur/sts
 * (echs_event_lt_p only looks at .from); instants have no bit that
 * echs_instant_lt_p ignores (it compares the whole 64-bit word after a
 * bijective shift of H and ms), so equal instants are indistinguishable and
 * stability is unobservable there: instants are checked for permutation and
 * order only.
 *
 * --opt mode=exh   every array of length <= exh3 over the 3-key alphabets and
 *                  of length <= exh2 over the 2-key alphabets
 *       mode=fam   for every length in nlo..nhi (and, with extra=1, the
 *                  special lengths above nhi) the O(1)-parameter families
 *       mode=pos   for every special length <= nmax the position-indexed
 *                  families (split, deschi, desclo) for every position
 *       kind=inst|event|both   alpha=all|<name>[+<name>...]
 *       exh2/exh3/exh5  longest length enumerated completely over 2/3/5 keys
 *       count=0    do not count non-trivial arrays (second pass, asan)
 *       dense=1    more special lengths (<= 600, 8 either side of 1024/2048/4096)
 *
 * case 0 of every mode checks echs_instant_lt_p / echs_event_lt_p against the
 * rank order on every pair of every alphabet.
 *
 * clauses: cmp (case 0), perm, order (library predicate), chron (rank order,
 * reported when the predicate had no objection), stable (events), mismatch
 * (none of the former yet different from the reference; cannot happen),
 * oob (access outside the array: guard pages + canary in the plain build),
 * nonterm (sort still running after 0.8 s of its own CPU time); the asan
 * build reports out-of-bounds accesses as the supervisor's crash/...
 */
#include "vdrv.h"

/* The sort keeps a cache[512] on its stack.  Whatever an earlier call left there must not decide the outcome of
 * a case (a case has to replay alone): fill the stack region below us with a fixed pattern before every sort. */
static __attribute__((noinline)) void
poison_stack(void)
{
	volatile unsigned char pad[96 * 1024];
	for (size_t i = 0; i < sizeof(pad); i += 8) {
		pad[i] = 0xa5, pad[i + 1] = 0x5a, pad[i + 2] = 0xa5, pad[i + 3] = 0x5a;
		pad[i + 4] = 0xa5, pad[i + 5] = 0x5a, pad[i + 6] = 0xa5, pad[i + 7] = 0x5a;
	}
	__asm__ volatile("" : : "r"(pad) : "memory");
}
#include <stdbool.h>
#include <math.h>
#include <setjmp.h>
#include "instant.h"
#include "event.h"
#include "dt-strpf.h"

#define MAXN	4096
#define MAXK	67
#define GUARD	64	/* elements of canary in front of the array (plain variant) */

enum {K_INST, K_EVENT, NKINDS};
static const char *kname[] = {"inst", "event"};
static const size_t ksz[] = {sizeof(echs_instant_t), sizeof(echs_event_t)};

/* alphabets, each in chronological order as the property states it:
 * earlier date first; within a day the all-day value, then times of day
 * ascending; a time without fraction (the all-second sentinel) is only ever
 * put next to other *seconds*, never next to an explicit fraction of the
 * same second (the property text does not order those two) */
struct alph_s {
	const char *name;
	int k;
	const char *txt[MAXK];
	echs_instant_t v[MAXK];
};

static char a67txt[MAXK][24];

static struct alph_s alph[] = {
	{"k2day", 2, {"20000101", "20000101T000000"}},
	{"k2sec", 2, {"20000101T100000.999", "20000101T100001"}},
	/* a whole second and a fraction of the same second: the whole second comes first */
	{"k3sec", 3, {"20000101T100000.999", "20000101T100001", "20000101T100001.500"}},
	{"k2prev", 2, {"19991231T235959", "20000101"}},
	{"k3", 3, {"20000101", "20000101T000000", "20000101T123015.250"}},
	{"k3b", 3, {"19991231T235959", "20000101", "20000101T000000.000"}},
	{"k5", 5, {"19991231T235959.999", "20000101", "20000101T000000",
		   "20000101T123015.250", "20000102"}},
	{"k67", 67, {NULL}},
};
#define NALPH	((int)(sizeof(alph) / sizeof(*alph)))

/* build the instant the text denotes by hand (independent of dt_strp) */
static echs_instant_t
by_hand(const char *s)
{
	unsigned y = 0, m = 0, d = 0, H = 0, M = 0, S = 0, ms = 0;
	echs_instant_t r = {.u = 0U};
	int n = sscanf(s, "%4u%2u%2uT%2u%2u%2u.%3u", &y, &m, &d, &H, &M, &S, &ms);

	r.y = y, r.m = m, r.d = d;
	if (n == 3) {
		r.H = ECHS_ALL_DAY;
	} else if (n == 6) {
		r.H = H, r.M = M, r.S = S, r.ms = ECHS_ALL_SEC;
	} else if (n == 7) {
		r.H = H, r.M = M, r.S = S, r.ms = ms;
	} else {
		fprintf(stderr, "c20: bad alphabet text %s\n", s);
		_exit(3);
	}
	return r;
}

static void
init_alph(void)
{
	struct alph_s *a = &alph[NALPH - 1];
	for (int j = 0; j < a->k; j++) {
		static const char *sfx[] = {"", "T000000", "T120000.500"};
		snprintf(a67txt[j], sizeof(a67txt[j]), "200002%02d%s", 1 + j / 3, sfx[j % 3]);
		a->txt[j] = a67txt[j];
	}
	for (int i = 0; i < NALPH; i++) {
		for (int j = 0; j < alph[i].k; j++) {
			const char *s = alph[i].txt[j];
			echs_instant_t v = dt_strp(s, NULL, strlen(s));
			echs_instant_t w = by_hand(s);
			if (v.u != w.u || !v.u) {
				fprintf(stderr, "c20: dt_strp(%s) = %#llx, by hand %#llx\n",
					s, (unsigned long long)v.u, (unsigned long long)w.u);
				_exit(3);
			}
			alph[i].v[j] = v;
		}
	}
}


/* buffers */
static unsigned char key[MAXN + 1];
static unsigned char inbuf[MAXN * sizeof(echs_event_t)];
static unsigned char expbuf[MAXN * sizeof(echs_event_t)];

/* plain variant: the array under sort ends exactly at an inaccessible page
 * and is preceded by a canary zone that itself starts behind an inaccessible
 * page, so the first access behind the array faults at once and a case gives
 * the same result whatever ran before it in the same worker (the sanitizer
 * variant uses an exact-size heap block instead) */

static unsigned char *wrk_lo, *wrk_hi;	/* the accessible part */

static void
init_wrk(void)
{
	const size_t pg = (size_t)sysconf(_SC_PAGESIZE);
	size_t sz = (MAXN + GUARD) * sizeof(echs_event_t);
	unsigned char *m;

	sz = (sz + pg - 1) / pg * pg;
	m = mmap(NULL, sz + 2 * pg, PROT_NONE, MAP_PRIVATE | MAP_ANONYMOUS, -1, 0);
	if (m == MAP_FAILED || mprotect(m + pg, sz, PROT_READ | PROT_WRITE)) {
		perror("c20: mmap");
		_exit(3);
	}
	wrk_lo = m + pg;
	wrk_hi = wrk_lo + sz;
	memset(wrk_lo, 0xa5, sz);
}

static long n_arrays, n_nonterm;
/* count=0: a second pass over arrays another driver counts already (asan) */
static int count_nt = 1;

/* watchdog: a timer on the worker's own CPU time ticks every 0.4 s; a sort
 * that is seen in progress by three consecutive ticks (>= 0.8 s of CPU for at
 * most 4096 elements, four orders of magnitude above the normal cost) is
 * abandoned and reported as non-terminating.  No system call per array. */
static volatile unsigned long sort_seq;
static volatile int in_sort;
static sigjmp_buf sort_jmp;

static void
tick(int sig)
{
	static unsigned long seen = -1UL;
	static int stuck;
	(void)sig;
	if (in_sort && seen == sort_seq) {
		if (++stuck >= 2) {
			stuck = 0;
			in_sort = 0;
			siglongjmp(sort_jmp, 1);
		}
	} else {
		seen = sort_seq;
		stuck = 0;
	}
}

#if !defined __SANITIZE_ADDRESS__
static unsigned char *volatile fault_addr;

/* a fault in the pages around the work area while a sort is running is the
 * sort's doing: leave the sort and report it (no worker restart needed, and
 * the report says where); any other fault takes the default route, i.e. the
 * worker dies and the supervisor reports crash/... */
static void
fault(int sig, siginfo_t *si, void *uc)
{
	const size_t pg = (size_t)sysconf(_SC_PAGESIZE);
	unsigned char *addr = si->si_addr;
	(void)uc;
	if (in_sort && addr >= wrk_lo - pg && addr < wrk_hi + pg) {
		fault_addr = addr;
		in_sort = 0;
		siglongjmp(sort_jmp, 2);
	}
	signal(sig, SIG_DFL);
}
#else
static unsigned char *volatile fault_addr;
#endif

static void
init_tick(void)
{
	struct sigaction sa;
	struct itimerval it = {{0, 400000}, {0, 400000}};
	memset(&sa, 0, sizeof(sa));
	sa.sa_handler = tick;
	sa.sa_flags = SA_RESTART;
	sigemptyset(&sa.sa_mask);
	sigaction(SIGVTALRM, &sa, NULL);
	setitimer(ITIMER_VIRTUAL, &it, NULL);
#if !defined __SANITIZE_ADDRESS__
	memset(&sa, 0, sizeof(sa));
	sa.sa_sigaction = fault;
	sa.sa_flags = SA_SIGINFO;
	sigemptyset(&sa.sa_mask);
	sigaction(SIGSEGV, &sa, NULL);
	sigaction(SIGBUS, &sa, NULL);
#endif
}

static void
mk_elem(int kind, void *tgt, echs_instant_t v, int rank, size_t idx)
{
	if (kind == K_INST) {
		memcpy(tgt, &v, sizeof(v));
	} else {
		echs_event_t e;
		memset(&e, 0, sizeof(e));
		e.from = v;
		e.grp = v;
		e.dur.d = (int64_t)idx * 100 + rank;
		e.oid = (echs_oid_t)(idx + 1U);
		e.sts = ~(echs_stset_t)idx;
		memcpy(tgt, &e, sizeof(e));
	}
}

static inline echs_instant_t
el_key(int kind, const unsigned char *buf, size_t i)
{
	echs_instant_t v;
	/* .from is the first member of echs_event_t */
	memcpy(&v, buf + i * ksz[kind], sizeof(v));
	return v;
}

static inline bool
el_lt(int kind, const unsigned char *buf, size_t i, size_t j)
{
/* the library's own predicate for the element type */
	if (kind == K_INST) {
		return echs_instant_lt_p(el_key(kind, buf, i), el_key(kind, buf, j));
	} else {
		echs_event_t a, b;
		memcpy(&a, buf + i * sizeof(a), sizeof(a));
		memcpy(&b, buf + j * sizeof(b), sizeof(b));
		return echs_event_lt_p(a, b);
	}
}

static int
rank_of(const struct alph_s *a, echs_instant_t v)
{
	for (int j = 0; j < a->k; j++) {
		if (a->v[j].u == v.u) {
			return j;
		}
	}
	return -1;
}

static const char*
lenclass(size_t n)
{
/* classes follow the code paths of wikisort.c, see propdefs/c20.py */
	if (n <= 32) return "n<=32";
	if (n < 1024) return "n<1024";
	if (n < 2048) return "n<2048";
	if (n < 4096) return "n<4096";
	return "n=4096";
}

static void
keystr(char *buf, size_t bsz, const unsigned char *k, size_t n)
{
	size_t o = 0;
	buf[0] = '\0';
	if (n > 80) {
		return;
	}
	for (size_t i = 0; i < n && o + 4 < bsz; i++) {
		o += snprintf(buf + o, bsz - o, "%s%d", i ? " " : "", k[i]);
	}
}

static uint64_t
keyhash(const unsigned char *k, size_t n)
{
	uint64_t h = 0xcbf29ce484222325ULL ^ n;
	for (size_t i = 0; i < n; i++) {
		h = (h ^ k[i]) * 0x100000001b3ULL;
	}
	return h;
}

/* run one array: key[0..n) over alphabet A as KIND; WHAT names the array
 * (family and parameter), GRP is the family group used in signatures, FAM the
 * family (used, with the alphabet size, in the signatures of the clauses that
 * are about the sort's conduct rather than its result: oob, nonterm; same
 * shape as the supervisor's crash/... signatures).
 * returns true if the array was non-trivial (>= 2 distinct keys and at least
 * one descent, i.e. the sort has to move something) */
static bool
run(int kind, const struct alph_s *a, size_t n, const char *grp, const char *fam, const char *what)
{
	const size_t esz = ksz[kind];
	size_t cnt[MAXK + 1] = {0};
	size_t pos[MAXK + 1];
	unsigned char *w;
	volatile bool desc = false;	/* lives across the sigsetjmp below */
	char sig[160], ks[256];

	n_arrays++;
	vd_sh->evals++;
	vd_beat();
	for (size_t i = 0; i < n; i++) {
		mk_elem(kind, inbuf + i * esz, a->v[key[i]], key[i], i);
		cnt[key[i]]++;
		desc |= i && key[i] < key[i - 1];
	}
	/* reference: stable counting sort by rank */
	pos[0] = 0;
	for (int j = 1; j < a->k; j++) {
		pos[j] = pos[j - 1] + cnt[j - 1];
	}
	for (size_t i = 0; i < n; i++) {
		memcpy(expbuf + pos[key[i]]++ * esz, inbuf + i * esz, esz);
	}

#if defined __SANITIZE_ADDRESS__
	/* exact-size heap block, the sanitizer watches its borders */
	unsigned char *blk = malloc(n * esz ?: 1U);
	w = blk;
#else
	w = wrk_hi - n * esz;
#endif
	memcpy(w, inbuf, n * esz);

	sort_seq++;
	switch (sigsetjmp(sort_jmp, 1)) {
	case 0:
		break;
	case 1:
		/* the watchdog took us out of the sort */
		snprintf(sig, sizeof(sig), "nonterm/%s/%s/%s/%s/k%d", kname[kind], lenclass(n), grp, fam, a->k);
		keystr(ks, sizeof(ks), key, n);
		vd_viol(sig, "%s n=%zu alphabet %s %s%s%s: sort still running after 0.8 s of CPU time",
			kname[kind], n, a->name, what, *ks ? " keys " : "", ks);
		/* each of these costs a second; a worker that has seen 24 gives up
		 * (the run then reports its findings with exhaustive:false) */
		vd_count("nonterminating_sorts", 1);
		if (++n_nonterm >= 24) {
			vd_sh->capped = 1;
		}
		goto out;
	default:
		/* the sort ran into one of the inaccessible pages around the array */
		snprintf(sig, sizeof(sig), "oob/%s/%s/%s/%s/k%d", kname[kind], lenclass(n), grp, fam, a->k);
		keystr(ks, sizeof(ks), key, n);
		if (fault_addr >= w + n * esz) {
			vd_viol(sig, "%s n=%zu alphabet %s %s%s%s: sort accesses memory behind the array "
				"(first fault at element index %zu, array has %zu)",
				kname[kind], n, a->name, what, *ks ? " keys " : "", ks,
				(size_t)(fault_addr - w) / esz, n);
		} else {
			vd_viol(sig, "%s n=%zu alphabet %s %s%s%s: sort accesses memory in front of the array "
				"(first fault %zu bytes before its start)",
				kname[kind], n, a->name, what, *ks ? " keys " : "", ks, (size_t)(w - fault_addr));
		}
		vd_count("out_of_bounds_faults", 1);
		goto out;
	}
	in_sort = 1;
	if (kind == K_INST) {
		poison_stack();
		echs_instant_sort((echs_instant_t*)w, n);
	} else {
		poison_stack();
		echs_event_sort((echs_event_t*)w, n);
	}
	in_sort = 0;

#if !defined __SANITIZE_ADDRESS__
	for (const unsigned char *p = w - GUARD * esz; p < w; p++) {
		if (*p != 0xa5) {
			snprintf(sig, sizeof(sig), "oob/%s/%s/%s/%s/k%d", kname[kind], lenclass(n), grp, fam, a->k);
			vd_viol(sig, "%s n=%zu alphabet %s %s: sort wrote %zu bytes in front of the array",
				kname[kind], n, a->name, what, (size_t)(w - p));
			break;
		}
	}
#endif

	if (memcmp(w, expbuf, n * esz)) {
		/* find out which clause is violated */
		bool perm_ok = true, any = false;
		keystr(ks, sizeof(ks), key, n);

		if (kind == K_INST) {
			size_t got[MAXK + 1] = {0};
			for (size_t p = 0; p < n && perm_ok; p++) {
				int r = rank_of(a, el_key(kind, w, p));
				if (r < 0) {
					snprintf(sig, sizeof(sig), "perm/%s/%s/%s", kname[kind], lenclass(n), grp);
					vd_viol(sig, "%s n=%zu alphabet %s %s%s%s: output[%zu]=%#llx is not an input value",
						kname[kind], n, a->name, what, *ks ? " keys " : "", ks, p,
						(unsigned long long)el_key(kind, w, p).u);
					perm_ok = false;
				} else {
					got[r]++;
				}
			}
			for (int j = 0; j < a->k && perm_ok; j++) {
				if (got[j] != cnt[j]) {
					snprintf(sig, sizeof(sig), "perm/%s/%s/%s", kname[kind], lenclass(n), grp);
					vd_viol(sig, "%s n=%zu alphabet %s %s%s%s: value %s occurs %zu times in the input, %zu times in the output",
						kname[kind], n, a->name, what, *ks ? " keys " : "", ks, a->txt[j], cnt[j], got[j]);
					perm_ok = false;
				}
			}
		} else {
			static unsigned char seen[MAXN];
			memset(seen, 0, n);
			for (size_t p = 0; p < n && perm_ok; p++) {
				echs_event_t e;
				memcpy(&e, w + p * esz, esz);
				if (e.oid < 1U || e.oid > n || seen[e.oid - 1U]++ ||
				    memcmp(&e, inbuf + (e.oid - 1U) * esz, esz)) {
					snprintf(sig, sizeof(sig), "perm/%s/%s/%s", kname[kind], lenclass(n), grp);
					vd_viol(sig, "%s n=%zu alphabet %s %s%s%s: output[%zu] (index tag %ld) is not an input element or occurs twice",
						kname[kind], n, a->name, what, *ks ? " keys " : "", ks, p, (long)e.oid - 1L);
					perm_ok = false;
				}
			}
		}
		any = !perm_ok;
		/* order under the library's own predicate */
		bool order_ok = true;
		for (size_t p = 0; p + 1 < n; p++) {
			if (el_lt(kind, w, p + 1, p)) {
				snprintf(sig, sizeof(sig), "order/%s/%s/%s", kname[kind], lenclass(n), grp);
				vd_viol(sig, "%s n=%zu alphabet %s %s%s%s: output[%zu] > output[%zu] under the lt_p predicate",
					kname[kind], n, a->name, what, *ks ? " keys " : "", ks, p, p + 1);
				order_ok = false, any = true;
				break;
			}
		}
		if (perm_ok) {
			/* chronological order (rank), reported when lt_p had no objection */
			for (size_t p = 0; p + 1 < n && order_ok; p++) {
				int r0 = rank_of(a, el_key(kind, w, p)), r1 = rank_of(a, el_key(kind, w, p + 1));
				if (r1 < r0) {
					snprintf(sig, sizeof(sig), "chron/%s/%s/%s", kname[kind], lenclass(n), grp);
					vd_viol(sig, "%s n=%zu alphabet %s %s%s%s: output[%zu]=%s comes before output[%zu]=%s",
						kname[kind], n, a->name, what, *ks ? " keys " : "", ks, p, a->txt[r0], p + 1, a->txt[r1]);
					any = true;
					break;
				}
			}
			if (kind == K_EVENT) {
				for (size_t p = 0; p + 1 < n; p++) {
					echs_event_t e0, e1;
					memcpy(&e0, w + p * esz, esz);
					memcpy(&e1, w + (p + 1) * esz, esz);
					if (e0.from.u == e1.from.u && e0.oid > e1.oid) {
						snprintf(sig, sizeof(sig), "stable/%s/%s/%s", kname[kind], lenclass(n), grp);
						vd_viol(sig, "%s n=%zu alphabet %s %s%s%s: equal keys (%s) out of input order: "
							"output[%zu] was input[%ld], output[%zu] was input[%ld]",
							kname[kind], n, a->name, what, *ks ? " keys " : "", ks,
							a->txt[rank_of(a, e0.from)], p, (long)e0.oid - 1L, p + 1, (long)e1.oid - 1L);
						any = true;
						break;
					}
				}
			}
		}
		if (!any) {
			snprintf(sig, sizeof(sig), "mismatch/%s/%s/%s", kname[kind], lenclass(n), grp);
			vd_viol(sig, "%s n=%zu alphabet %s %s%s%s: output differs from the stable counting sort",
				kname[kind], n, a->name, what, *ks ? " keys " : "", ks);
		}
	}
out:
#if defined __SANITIZE_ADDRESS__
	free(blk);
#else
	/* canary again where the array was */
	memset(w, 0xa5, n * esz);
#endif
	return desc;
}


/* the special lengths: 0..130, 2^k-1, 2^k, 2^k+1, and the ones around the
 * thresholds of wikisort.c (first block-merge level at 1024, levels at 2048
 * and 4096) plus a few lengths far from powers of two */
static bool dense;

static bool
special_p(size_t n)
{
	static const size_t xtra[] = {511, 512, 513, 514, 1000, 1536, 2000, 3000, 3072, 4095, 4096};
	if (n <= 130) {
		return true;
	}
	/* dense=1: every length up to 600 and 8 either side of 1024, 2048, 4096 */
	if (dense && (n <= 600 || (n >= 1016 && n <= 1032) || (n >= 2040 && n <= 2056) || n >= 4088)) {
		return true;
	}
	for (size_t p = 1; p <= 4096; p <<= 1) {
		if (n + 1 == p || n == p || n == p + 1) {
			return true;
		}
	}
	for (size_t i = 0; i < sizeof(xtra) / sizeof(*xtra); i++) {
		if (n == xtra[i]) {
			return true;
		}
	}
	return false;
}


/* families with O(1) parameters; fill key[0..n), return false when exhausted */
#define NFAM	28

static const char*
fam_name(int f)
{
	return f == 0 ? "sorted" : f == 1 ? "reversed" : f < 4 ? "all-equal" : f < 20 ? "saw-tooth"
		: f == 20 ? "organ-pipe" : f < 25 ? "sorted-runs" : "stride";
}

static const char*
fam_group(int f)
{
	return f < 4 ? "mono" : "periodic";
}

static void
fam_fill(int f, size_t n, int K, char *what, size_t wsz)
{
	static const unsigned strides[] = {1237, 1741, 3001};
	if (f == 0) {
		snprintf(what, wsz, "sorted");
		for (size_t i = 0; i < n; i++) key[i] = (unsigned char)(i * K / n);
	} else if (f == 1) {
		snprintf(what, wsz, "reversed");
		for (size_t i = 0; i < n; i++) key[i] = (unsigned char)(K - 1 - i * K / n);
	} else if (f == 2 || f == 3) {
		snprintf(what, wsz, "all-equal(key %d)", f == 2 ? 0 : K - 1);
		memset(key, f == 2 ? 0 : K - 1, n);
	} else if (f < 20) {
		const size_t p = f - 3;
		snprintf(what, wsz, "saw-tooth(period %zu)", p);
		for (size_t i = 0; i < n; i++) key[i] = (unsigned char)((i % p) * K / p);
	} else if (f == 20) {
		const size_t h = (n + 1) / 2;
		snprintf(what, wsz, "organ-pipe");
		for (size_t i = 0; i < n; i++) {
			size_t x = i < n - 1 - i ? i : n - 1 - i;
			key[i] = (unsigned char)(x * K / h);
		}
	} else if (f < 25) {
		size_t r = f == 24 ? (size_t)sqrt((double)n) : (size_t)(f - 19);
		size_t L;
		if (r < 1) r = 1;
		L = (n + r - 1) / r ?: 1U;
		snprintf(what, wsz, "%zu-sorted-runs(%s,run length %zu)", r, f == 24 ? "r=floor(sqrt n)" : "fixed r", L);
		for (size_t i = 0; i < n; i++) key[i] = (unsigned char)((i % L) * K / L);
	} else {
		const unsigned s = strides[f - 25];
		snprintf(what, wsz, "stride(key[i]=(i*%u%%4099)%%%d)", s, K);
		for (size_t i = 0; i < n; i++) key[i] = (unsigned char)((i * s % 4099U) % (unsigned)K);
	}
}

/* position-indexed families */
enum {P_SPLIT, P_DESCHI, P_DESCLO, NPFAM};
static const char *pname[] = {"split", "deschi", "desclo"};

static void
pos_fill_to(unsigned char *k, int pf, size_t n, int K, size_t i)
{
	switch (pf) {
	case P_SPLIT:
		/* two sorted runs [0,i) and [i,n), each through all K keys */
		for (size_t j = 0; j < i; j++) k[j] = (unsigned char)(j * K / i);
		for (size_t j = i; j < n; j++) k[j] = (unsigned char)((j - i) * K / (n - i));
		break;
	case P_DESCHI:
		/* sorted, but position i holds the largest key */
		for (size_t j = 0; j < n; j++) k[j] = (unsigned char)(j * K / n);
		k[i] = (unsigned char)(K - 1);
		break;
	case P_DESCLO:
		/* sorted, but position i holds the smallest key */
		for (size_t j = 0; j < n; j++) k[j] = (unsigned char)(j * K / n);
		k[i] = 0;
		break;
	}
}

static void
pos_fill(int pf, size_t n, int K, size_t i)
{
	pos_fill_to(key, pf, n, K, i);
}

/* is the array in key[] (family PF at position I, hash H) also produced by
 * an earlier position-indexed family?  a deschi(i) array has its only
 * descent at i|i+1 so it can only be split(i+1); a desclo(i) array has it at
 * i-1|i so it can only be split(i) or deschi(i-1) */
static bool
pos_dup_p(int pf, size_t n, int K, size_t i, uint64_t h)
{
	static unsigned char k2[MAXN + 1];
	if (pf == P_DESCHI && i + 1 < n) {
		pos_fill_to(k2, P_SPLIT, n, K, i + 1);
		return keyhash(k2, n) == h;
	} else if (pf == P_DESCLO && i >= 1) {
		pos_fill_to(k2, P_SPLIT, n, K, i);
		if (keyhash(k2, n) == h) {
			return true;
		}
		pos_fill_to(k2, P_DESCHI, n, K, i - 1);
		return keyhash(k2, n) == h;
	}
	return false;
}


static bool
want_kind(int kind)
{
	const char *k = vd_opt("kind", "both");
	return !strcmp(k, "both") || !strcmp(k, kname[kind]);
}

static bool
want_alph(const struct alph_s *a)
{
	/* all, or names joined by + */
	const char *k = vd_opt("alpha", "all");
	const size_t l = strlen(a->name);
	if (!strcmp(k, "all")) {
		return true;
	}
	for (const char *p = k; (p = strstr(p, a->name)) != NULL; p += l) {
		if ((p == k || p[-1] == '+') && (p[l] == '\0' || p[l] == '+')) {
			return true;
		}
	}
	return false;
}

/* longest length that mode=exh enumerates completely over an alphabet of K keys */
static int
exh_lim(int K)
{
	return K == 2 ? (int)vd_opt_l("exh2", 13)
		: K == 3 ? (int)vd_opt_l("exh3", 9)
		: K == 5 ? (int)vd_opt_l("exh5", -1) : -1;
}

/* fast-forward over CNT case indices none of which this process will run
 * (same effect as CNT calls of vd_next() that all return 0) */
static bool
skip_block(long cnt)
{
	const long last = vd_idx + cnt;
	if (vd_only >= 0 ? (last < vd_only || vd_idx >= vd_only) : last <= vd_resume) {
		vd_idx = last;
		return true;
	}
	return false;
}

static int
n_wanted(void)
{
	int r = 0;
	for (int kind = 0; kind < NKINDS; kind++) {
		for (int ai = 0; ai < NALPH; ai++) {
			r += want_kind(kind) && want_alph(&alph[ai]);
		}
	}
	return r;
}

/* case 0: the comparison predicates agree with the chronological order */
static void
check_cmp(void)
{
	char sig[160];
	vd_shape("cmp");
	if (!vd_next()) {
		return;
	}
	vd_desc("echs_instant_lt_p/echs_event_lt_p against the written-down order of every alphabet");
	for (int ai = 0; ai < NALPH; ai++) {
		const struct alph_s *a = &alph[ai];
		for (int i = 0; i < a->k; i++) {
			for (int j = 0; j < a->k; j++) {
				echs_event_t ei, ej;
				bool lt = echs_instant_lt_p(a->v[i], a->v[j]);
				bool le = echs_instant_le_p(a->v[i], a->v[j]);
				mk_elem(K_EVENT, &ei, a->v[i], i, 0);
				mk_elem(K_EVENT, &ej, a->v[j], j, 1);
				vd_sh->evals++;
				const char *ci = echs_instant_all_day_p(a->v[i]) ? "allday"
					: echs_instant_all_sec_p(a->v[i]) ? "allsec" : "ms";
				const char *cj = echs_instant_all_day_p(a->v[j]) ? "allday"
					: echs_instant_all_sec_p(a->v[j]) ? "allsec" : "ms";
				if (lt != (i < j)) {
					snprintf(sig, sizeof(sig), "cmp/instant_lt_p/%s-vs-%s", ci, cj);
					vd_viol(sig, "echs_instant_lt_p(%s, %s) = %d, chronologically %d",
						a->txt[i], a->txt[j], lt, i < j);
				}
				if (le != (i <= j)) {
					snprintf(sig, sizeof(sig), "cmp/instant_le_p/%s-vs-%s", ci, cj);
					vd_viol(sig, "echs_instant_le_p(%s, %s) = %d, chronologically %d",
						a->txt[i], a->txt[j], le, i <= j);
				}
				if (echs_event_lt_p(ei, ej) != (i < j)) {
					snprintf(sig, sizeof(sig), "cmp/event_lt_p/%s-vs-%s", ci, cj);
					vd_viol(sig, "echs_event_lt_p(from=%s, from=%s) = %d, chronologically %d",
						a->txt[i], a->txt[j], echs_event_lt_p(ei, ej), i < j);
				}
			}
		}
	}
	vd_sample("lt_p/le_p on every ordered pair of every alphabet (k2day, k2sec, k3sec, k2prev, k3, k3b, k5, k67)");
}

static void
enum_exh(void)
{
	int maxlim = 0;
	char what[64];

	for (int ai = 0; ai < NALPH; ai++) {
		if (exh_lim(alph[ai].k) > maxlim) {
			maxlim = exh_lim(alph[ai].k);
		}
	}
	for (int n = 0; n <= maxlim; n++) {
		for (int kind = 0; kind < NKINDS; kind++) {
			for (int ai = 0; ai < NALPH; ai++) {
				const struct alph_s *a = &alph[ai];
				int lim = exh_lim(a->k);
				size_t total = 1;
				long nt = 0;
				if (n > lim || !want_kind(kind) || !want_alph(a)) {
					continue;
				}
				if (!vd_next()) {
					continue;
				}
				vd_shape("%s/%s/exh/all/k%d", kname[kind], lenclass(n), a->k);
				vd_desc("%s: every array of length %d over alphabet %s (%d keys)", kname[kind], n, a->name, a->k);
				for (int i = 0; i < n; i++) total *= a->k;
				for (size_t c = 0; c < total && !vd_sh->capped; c++) {
					size_t x = c;
					for (int i = n - 1; i >= 0; i--) {
						key[i] = (unsigned char)(x % a->k);
						x /= a->k;
					}
					snprintf(what, sizeof(what), "array #%zu of %zu", c, total);
					nt += run(kind, a, n, "exh", "all", what);
				}
				vd_sh->nontriv += count_nt ? nt : 0;
				vd_count("arrays_exhaustive_short", (long)total);
				if (n >= 5) {
					vd_sample("%s: all %zu arrays of length %d over %s {%s, %s%s}", kname[kind], total, n,
						  a->name, a->txt[0], a->txt[1], a->k > 2 ? ", ..." : "");
				}
			}
		}
	}
}

/* is family array F the same array as an earlier family (for this length
 * and alphabet size)?  Up to length 512 decided by hashing all 28 arrays;
 * beyond that the only coincidence is saw-tooth period 1 == all-equal key 0
 * (established for every length 513..4096 and every alphabet size by running
 * mode=fam with fulldup=1, which hashes at every length, see triage/C20.md) */
static bool
fam_dup_p(int f, size_t n, int K, bool full)
{
	static uint64_t hs[4][NFAM];
	static size_t hs_n[4] = {-1UL, -1UL, -1UL, -1UL};
	static unsigned char sv[MAXN + 1];
	const int kc = K == 2 ? 0 : K == 3 ? 1 : K == 5 ? 2 : 3;
	char tmp[96];

	if (n > 512 && !full) {
		return f == 4;
	}
	if (hs_n[kc] != n) {
		memcpy(sv, key, n);
		for (int g = 0; g < NFAM; g++) {
			fam_fill(g, n, K, tmp, sizeof(tmp));
			hs[kc][g] = keyhash(key, n);
		}
		memcpy(key, sv, n);
		hs_n[kc] = n;
	}
	for (int g = 0; g < f; g++) {
		if (hs[kc][g] == hs[kc][f]) {
			return true;
		}
	}
	return false;
}

static void
enum_fam(void)
{
	const size_t nlo = vd_opt_l("nlo", 0), nhi = vd_opt_l("nhi", MAXN);
	const bool extra = vd_opt_l("extra", 0);
	const bool fulldup = vd_opt_l("fulldup", 0);
	const int nw = n_wanted();
	char what[96];

	for (size_t n = nlo; n <= MAXN; n++) {
		if (n > nhi && !(extra && special_p(n))) {
			continue;
		}
		if (skip_block((long)nw * NFAM)) {
			continue;
		}
		for (int kind = 0; kind < NKINDS; kind++) {
			for (int ai = 0; ai < NALPH; ai++) {
				const struct alph_s *a = &alph[ai];
				/* lengths that mode=exh covers completely are not counted again */
				bool cnt = (int)n > exh_lim(a->k);
				if (!want_kind(kind) || !want_alph(a)) {
					continue;
				}
				/* one array per case so that a crash costs just that array */
				for (int f = 0; f < NFAM; f++) {
					bool nt, dup;
					if (!vd_next()) {
						continue;
					}
					fam_fill(f, n, a->k, what, sizeof(what));
					vd_shape("%s/%s/%s/%s/k%d", kname[kind], lenclass(n), fam_group(f), fam_name(f), a->k);
					vd_desc("%s: length %zu, alphabet %s (%d keys), %s",
						kname[kind], n, a->name, a->k, what);
					nt = run(kind, a, n, fam_group(f), fam_name(f), what);
					dup = fam_dup_p(f, n, a->k, fulldup);
					if (nt && cnt && !dup) {
						vd_sh->nontriv += count_nt;
					}
					if (fulldup && n > 512 && nt && dup) {
						vd_count("unexpected_duplicate_family_arrays", 1);
					}
					vd_count("arrays_family", 1);
					if ((n == 1024 || n == 33 || n == 4096) && f == 21) {
						vd_sample("%s: length %zu over %s: %s", kname[kind], n, a->name, what);
					}
				}
			}
		}
	}
}

#define POSBLK	512

static void
enum_pos(void)
{
	const size_t nmax = vd_opt_l("nmax", MAXN);
	const size_t nmin = vd_opt_l("nmin", 0);
	char what[96];

	for (size_t n = nmin; n <= nmax && n <= MAXN; n++) {
		if (!special_p(n)) {
			continue;
		}
		{
			/* blocks of positions per (kind, alphabet): split has i = 1..n-1 */
			long nb = (n > 1 ? (n - 1 + POSBLK - 1) / POSBLK : 0) + 2 * ((n + POSBLK - 1) / POSBLK);
			if (skip_block(nb * n_wanted())) {
				continue;
			}
		}
		for (int kind = 0; kind < NKINDS; kind++) {
			for (int ai = 0; ai < NALPH; ai++) {
				const struct alph_s *a = &alph[ai];
				bool cnt = (int)n > exh_lim(a->k);
				if (!want_kind(kind) || !want_alph(a)) {
					continue;
				}
				for (int pf = 0; pf < NPFAM; pf++) {
					/* split: i = 1..n-1; deschi/desclo: i = 0..n-1 */
					const size_t ilo = pf == P_SPLIT ? 1 : 0;
					for (size_t b = ilo; b < n; b += POSBLK) {
						const size_t e = b + POSBLK < n ? b + POSBLK : n;
						uint64_t hs[NFAM];
						uint64_t prev = 0;
						long nt = 0;
						if (!vd_next()) {
							continue;
						}
						vd_shape("%s/%s/tworun/%s/k%d", kname[kind], lenclass(n), pname[pf], a->k);
						vd_desc("%s: length %zu, alphabet %s (%d keys), family %s at every position %zu..%zu",
							kname[kind], n, a->name, a->k, pname[pf], b, e - 1);
						/* arrays that mode=fam runs as well are not counted again */
						for (int f = 0; f < NFAM; f++) {
							fam_fill(f, n, a->k, what, sizeof(what));
							hs[f] = keyhash(key, n);
						}
						for (size_t i = b; i < e && !vd_sh->capped; i++) {
							uint64_t h;
							bool dup;
							pos_fill(pf, n, a->k, i);
							h = keyhash(key, n);
							dup = i > b && h == prev;
							prev = h;
							for (int f = 0; f < NFAM; f++) {
								dup |= hs[f] == h;
							}
							snprintf(what, sizeof(what), "%s(i=%zu)", pname[pf], i);
							if (run(kind, a, n, "tworun", pname[pf], what) && !dup && cnt &&
							    !pos_dup_p(pf, n, a->k, i, h)) {
								nt++;
							}
						}
						vd_sh->nontriv += count_nt ? nt : 0;
						vd_count("arrays_position", (long)(e - b));
						if (n == 1025 || n == 100) {
							vd_sample("%s: length %zu over %s: %s at i=%zu..%zu", kname[kind], n, a->name, pname[pf], b, e - 1);
						}
					}
				}
			}
		}
	}
}

static void
enumerate(void)
{
	const char *mode = vd_opt("mode", "exh");

	dense = vd_opt_l("dense", 0);
	count_nt = vd_opt_l("count", 1) != 0;
	init_tick();
	init_alph();
#if !defined __SANITIZE_ADDRESS__
	init_wrk();
#endif
	vd_count_cases = 0;
	n_arrays = 0;
	check_cmp();
	if (!strcmp(mode, "exh")) {
		enum_exh();
	} else if (!strcmp(mode, "fam")) {
		enum_fam();
	} else if (!strcmp(mode, "pos")) {
		enum_pos();
	} else {
		fprintf(stderr, "c20: unknown mode %s\n", mode);
		_exit(3);
	}
}

int
main(int argc, char *argv[])
{
	return vd_main(argc, argv, enumerate);
}
