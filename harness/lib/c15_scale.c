/* C15 -- Hijri <-> Gregorian scale conversion is a consistent bijection.
 *
 * For each of the ten Hijri scales the real echs_instant_rescale(),
 * echs_scale_ndim() and echs_scale_wday() are run on
 *   mode=g2h  every Gregorian day of [y0,y1] (default 1901..2099): image, way back,
 *             succession of images, day-of-month within the reported month length,
 *             weekday; for the table calendars: nul outside the table's coverage
 *   mode=h2g  every Hijri date y-m-d (d <= reported month length) of the Hijri years
 *             whose span lies inside 1901..2099 (1319..1522): image, way back,
 *             succession, month length = distance of the first-of-month images,
 *             weekday; for the table calendars every y-m-1..29 outside the
 *             coverage must come back as the nul instant
 *   mode=edge echs_scale_ndim() on every month of the Hijri years 1300..1560 of the
 *             table calendars (by-catch: must not crash; value judged in h2g only)
 *
 * Reference: harness/ref/civil_c15.h (days-from-civil) for day numbers and
 * weekdays on the Gregorian side; the Hijri side needs no reference because
 * the property is consistency.  Coverage of the table calendars is read from
 * /repo/src/dat_*.c (first entry .. last entry; day numbers counted from 1858-11-16 of
 * first-of-months, month index of the first entry in slot 0).
 *
 *   mode=stream  the scales as the recurrence stream uses them: for every scale name the parser accepts
 *             (HIJRI, HIJRI.UMMULQURA, HIJRI.DIYANET, HIJRI.IA .. HIJRI.IVC) and several DTSTARTs the events
 *             RRULE:FREQ=DAILY;SCALE=x;COUNT=200, FREQ=MONTHLY;...;COUNT=150 and FREQ=YEARLY;...;COUNT=70
 *             (text -> parser -> stream, reported in Gregorian): consecutive Hijri days must be consecutive
 *             Gregorian days, monthly/yearly steps must keep the Hijri day of month (and month) and advance
 *             by one month (year) -- more only over dates the scale does not have --, strictly increasing,
 *             and the stream must not end before COUNT while the next date lies inside the calendar
 *
 *   mode=calscale  the calendar-level output scale: calendars `CALSCALE:<name>' with a recurring event
 *             DTSTART(;VALUE=DATE):<Gregorian day> RRULE:FREQ=DAILY;COUNT=1500 (all-day and at 12:00:00Z), starts every
 *             four years 1938..2074 so that every day of the span is visited; the stream delivers instants labelled with a
 *             Hijri scale: the k-th must be echs_instant_rescale() of DTSTART + k days into the scale it is labelled with
 *             (judged by g2h/h2g), i.e. consecutive days stay consecutive days on their way through the stream's cache
 *   mode=text the scales as the text interface reads them: every Gregorian day of one year is converted with
 *             echs_instant_rescale() and written as DTSTART;VALUE=DATE;SCALE=<name>:yyyymmdd (and as ...;SCALE=<name>:yyyymmddT120000Z),
 *             one non-recurring event per day; read through the parser (Gregorian output) the one occurrence of each event
 *             must be the day it was made from -- a date inside a calendar must not be rejected or moved by the reader
 *
 * case = (scale, year); evaluations are counted per date.
 *   mode=multirule  events with SEVERAL rules in a calendar with a Hijri CALSCALE: the stream of the event must be the
 *             sorted union of the streams the rules give one by one (less what the EXRULEs give), every occurrence
 *             labelled with the same scale; see multirule_case()
 * options: mode=, y0= y1= (g2h), h0= h1= (h2g), nocount=1 (do not count non-trivial cases)
 */
#include "vdrv.h"
#include <stdbool.h>
#include "scale.h"
#include "tzob.h"
#include "ref/civil_c15.h"
#include "ref/icalio.h"
#include "intern.h"
/* data only: the month-start tables, for their coverage */
#include "dat_ummulqura.c"
#include "dat_diyanet.c"

static const char *sname[] = {
	"GREG", "IA", "IC", "IIA", "IIC", "IIIA", "IIIC", "IVA", "IVC", "UMMULQURA", "DIYANET",
};

/* signature component: the type without the epoch letter (the A and C variants differ by
 * one constant only; the scale itself is in the case description) */
static const char *tname[] = {
	"GREG", "I", "I", "II", "II", "III", "III", "IV", "IV", "UMMULQURA", "DIYANET",
};

struct tab_s {
	const unsigned int *mt;	/* month starts, MJD */
	long nm;		/* entries */
	long sm;		/* absolute month number ((y-1)*12 + (m-1)) of entry 0 */
};

static struct tab_s
table(int s)
{
	switch (s) {
	case SCALE_HIJRI_UMMULQURA:
		return (struct tab_s){dat_ummulqura + 2, (long)(sizeof(dat_ummulqura) / sizeof(*dat_ummulqura)) - 2, dat_ummulqura[0]};
	case SCALE_HIJRI_DIYANET:
		return (struct tab_s){dat_diyanet + 2, (long)(sizeof(dat_diyanet) / sizeof(*dat_diyanet)) - 2, dat_diyanet[0]};
	}
	return (struct tab_s){NULL, 0, 0};
}

/* the tables count days from 1858-11-16 (Modified Julian Day + 1, the day count that
 * /repo/src/scale.c uses throughout).  Fixed independently of the code by published
 * first-of-month dates: Umm al-Qura 1 Muharram 1440 = 2018-09-11 (entry 58373),
 * 1 Ramadan 1445 = 2024-03-11 (60381); Diyanet 1 Ramazan 1443 = 2022-04-02 (59672),
 * 1 Muharrem 1444 = 2022-07-30 (59791). */
#define TAB_DAY0	(CVL_MJD0 - 1L)

/* coverage of a Gregorian day number (days since 1970):
 * -1 before, 0 inside, +1 behind, 2 in the last listed month (length unknown, not judged) */
static int
gcover(const struct tab_s *t, long z)
{
	const long mjd = z - TAB_DAY0;
	if (t->mt == NULL) {
		return 0;
	} else if (mjd < (long)t->mt[0]) {
		return -1;
	} else if (mjd < (long)t->mt[t->nm - 1]) {
		return 0;
	} else if (mjd < (long)t->mt[t->nm - 1] + 30) {
		return 2;
	}
	return 1;
}

/* same for a Hijri month */
static int
hcover(const struct tab_s *t, long y, long m)
{
	const long i = (y - 1) * 12 + (m - 1) - t->sm;
	if (t->mt == NULL) {
		return 0;
	} else if (i < 0) {
		return -1;
	} else if (i < t->nm - 1) {
		return 0;
	} else if (i == t->nm - 1) {
		return 2;
	}
	return 1;
}

static const char *covname(int c)
{
	return c < 0 ? "before" : c == 0 ? "inside" : c == 1 ? "behind" : "last-month";
}

/* a second pass over the same cases (sanitizer build) does not count them again */
static int nocount;
#define NONTRIVIAL()	(nocount ? (void)0 : vd_nontrivial())

static echs_instant_t
mkinst(int s, unsigned y, unsigned m, unsigned d)
{
	echs_instant_t i = {.y = y, .m = m, .d = d, .H = ECHS_ALL_DAY, .M = 0, .S = 0, .ms = ECHS_ALL_SEC};
	return echs_instant_attach_scale(i, (echs_scale_t)s);
}

/* shape of a Hijri image */
static const char*
hclass(int s, echs_instant_t h)
{
	echs_instant_t x;
	if (echs_nul_instant_p(h)) {
		return "nul";
	}
	x = echs_instant_detach_scale(h);
	if (x.m > 12) {
		return "month13";
	} else if (x.m < 1 || x.d < 1) {
		return "zero-field";
	} else if (x.d > 30) {
		return "day-gt-30";
	} else if (s <= SCALE_HIJRI_IVC && x.y % 30 == 0) {
		return "year-mod30-is-0";
	} else if (x.m == 12 && x.d == 30) {
		return "12-30";
	}
	return "plain";
}

/* the more telling of two shapes */
static const char*
worse(const char *a, const char *b)
{
	static const char *rank[] = {"plain", "12-30", "year-mod30-is-0", "day-gt-30", "month13", "zero-field", "nul"};
	int ra = 0, rb = 0;
	for (int i = 0; i < 7; i++) {
		ra = !strcmp(a, rank[i]) ? i : ra;
		rb = !strcmp(b, rank[i]) ? i : rb;
	}
	return ra >= rb ? a : b;
}

static const char*
hstr(char *buf, size_t bsz, echs_instant_t h)
{
	if (echs_nul_instant_p(h)) {
		snprintf(buf, bsz, "nul");
	} else {
		echs_instant_t x = echs_instant_detach_scale(h);
		snprintf(buf, bsz, "%u-%02u-%02u", x.y, x.m, x.d);
	}
	return buf;
}

/* is B the day after A in scale S?  A month may only end on its reported last day. */
static bool
hsucc_p(int s, echs_instant_t a, echs_instant_t b)
{
	a = echs_instant_detach_scale(a);
	b = echs_instant_detach_scale(b);
	if (a.m < 1 || a.m > 12 || b.m < 1 || b.m > 12 || a.d < 1 || b.d < 1 || a.d > 30 || b.d > 30) {
		return false;
	} else if (b.y == a.y && b.m == a.m) {
		return b.d == a.d + 1U;
	} else if (b.d != 1 || a.d != echs_scale_ndim((echs_scale_t)s, a.y, a.m)) {
		return false;
	} else if (a.m < 12) {
		return b.y == a.y && b.m == a.m + 1U;
	}
	return b.y == a.y + 1U && b.m == 1U;
}

static echs_tzob_t zone[2];

static void
g2h_year(int s, int Y)
{
	const struct tab_s t = table(s);
	echs_instant_t hprev = echs_nul_instant();
	bool have_prev = false;
	char sig[160], b1[32], b2[32];
	long z = cvl_days(Y, 1, 1);
	const long zend = cvl_days(Y, 12, 31);
	long nnul = 0, nmapped = 0;

	if (Y > 1901) {
		/* image of the day before, for the succession clause only */
		const struct cvl_ymd_s c = cvl_civil(z - 1);
		if (gcover(&t, z - 1) == 0) {
			hprev = echs_instant_rescale(mkinst(SCALE_GREGORIAN, c.y, c.m, c.d), (echs_scale_t)s);
			have_prev = !echs_nul_instant_p(hprev);
		}
	}
	for (; z <= zend; z++) {
		const struct cvl_ymd_s c = cvl_civil(z);
		const echs_instant_t g = mkinst(SCALE_GREGORIAN, c.y, c.m, c.d);
		const int cov = gcover(&t, z);
		echs_instant_t h, back, hx;

		vd_sh->evals++;
		vd_beat();
		h = echs_instant_rescale(g, (echs_scale_t)s);
		if (cov == 2) {
			/* last listed month of a table: not judged */
			have_prev = false;
			continue;
		} else if (cov != 0) {
			if (!echs_nul_instant_p(h)) {
				snprintf(sig, sizeof(sig), "cover-g2h-not-rejected/%s/%s", tname[s], covname(cov));
				vd_viol(sig, "%s: Gregorian %04d-%02d-%02d lies %s the table (days %u..%u counted from 1858-11-16) but maps to %s instead of nul",
					sname[s], c.y, c.m, c.d, covname(cov), t.mt[0], t.mt[t.nm - 1] - 1U, hstr(b1, sizeof(b1), h));
			}
			nnul++;
			have_prev = false;
			continue;
		}
		nmapped++;
		if (echs_nul_instant_p(h)) {
			snprintf(sig, sizeof(sig), "g2h-nul/%s", tname[s]);
			vd_viol(sig, "%s: Gregorian %04d-%02d-%02d maps to nul", sname[s], c.y, c.m, c.d);
			have_prev = false;
			continue;
		}
		if ((int)echs_instant_scale(h) != s) {
			snprintf(sig, sizeof(sig), "scale-tag/%s/g2h", tname[s]);
			vd_viol(sig, "%s: image of %04d-%02d-%02d carries scale %d", sname[s], c.y, c.m, c.d, (int)echs_instant_scale(h));
		}
		hx = echs_instant_detach_scale(h);
		if (hx.intra != g.intra) {
			snprintf(sig, sizeof(sig), "intra-changed/%s/g2h", tname[s]);
			vd_viol(sig, "%s: time part of %04d-%02d-%02d changed %#x -> %#x", sname[s], c.y, c.m, c.d, g.intra, hx.intra);
		}
		/* the same day carrying a time zone: the zone rides along, the date must not see it */
		for (int zi = 0; zi < 2; zi++) {
			const echs_instant_t gz = echs_instant_attach_tzob(g, zone[zi]);
			const echs_instant_t hz = echs_instant_rescale(gz, (echs_scale_t)s);
			vd_sh->evals++;
			if (echs_instant_detach_tzob(hz).u != h.u || echs_instant_tzob(hz) != zone[zi]) {
				snprintf(sig, sizeof(sig), "zoned-differs/%s/g2h", tname[s]);
				vd_viol(sig, "%s: %04d-%02d-%02d maps to %s, the same day with zone %s attached maps to %s (zone afterwards %s)", sname[s], c.y, c.m, c.d,
					hstr(b1, sizeof(b1), h), zi ? "America/New_York" : "Europe/Berlin", hstr(b2, sizeof(b2), echs_instant_detach_tzob(hz)),
					echs_instant_tzob(hz) == zone[zi] ? "kept" : "lost");
				break;
			}
		}
		/* way back */
		back = echs_instant_rescale(h, SCALE_GREGORIAN);
		if (back.u != g.u) {
			snprintf(sig, sizeof(sig), "roundtrip/%s/%s", tname[s], hclass(s, h));
			vd_viol(sig, "%s: %04d-%02d-%02d -> %s -> %s", sname[s], c.y, c.m, c.d,
				hstr(b1, sizeof(b1), h), hstr(b2, sizeof(b2), back));
		}
		/* succession */
		if (have_prev && !hsucc_p(s, hprev, h)) {
			const struct cvl_ymd_s p = cvl_civil(z - 1);
			snprintf(sig, sizeof(sig), "succession/%s/%s", tname[s], worse(hclass(s, h), hclass(s, hprev)));
			vd_viol(sig, "%s: %04d-%02d-%02d -> %s but the next day %04d-%02d-%02d -> %s", sname[s], p.y, p.m, p.d,
				hstr(b1, sizeof(b1), hprev), c.y, c.m, c.d, hstr(b2, sizeof(b2), h));
		}
		/* the image is a day of its month; weekday */
		if (hx.m >= 1 && hx.m <= 12 && hx.d >= 1 && hx.d <= 30) {
			const unsigned nd = echs_scale_ndim((echs_scale_t)s, hx.y, hx.m);
			const int w = (int)echs_scale_wday((echs_scale_t)s, hx.y, hx.m, hx.d);
			if (hx.d > nd) {
				snprintf(sig, sizeof(sig), "day-beyond-ndim/%s/%s", tname[s], hclass(s, h));
				vd_viol(sig, "%s: %04d-%02d-%02d -> %s but echs_scale_ndim(%u,%u)=%u", sname[s], c.y, c.m, c.d,
					hstr(b1, sizeof(b1), h), hx.y, hx.m, nd);
			}
			if (w != cvl_wday(z)) {
				snprintf(sig, sizeof(sig), "wday/%s/%s", tname[s], hclass(s, h));
				vd_viol(sig, "%s: %s is the image of %04d-%02d-%02d (weekday %d) but echs_scale_wday gives %d", sname[s],
					hstr(b1, sizeof(b1), h), c.y, c.m, c.d, cvl_wday(z), w);
			}
		}
		hprev = h;
		have_prev = true;
	}
	if (nmapped) {
		NONTRIVIAL();
	}
	vd_count("g2h_days_inside_coverage", nmapped);
	vd_count("g2h_days_outside_coverage", nnul);
	vd_sample("g2h %s: every day of %d (%ld mapped, %ld outside the table) e.g. %04d-12-31 -> %s", sname[s], Y, nmapped, nnul,
		  Y, hstr(b1, sizeof(b1), hprev));
}

/* "short-by-1", "long-by-1", "...-by-many" */
static const char*
offby(char *buf, size_t bsz, long gap)
{
	const long a = gap > 0 ? gap : -gap;
	if (a <= 2) {
		snprintf(buf, bsz, "%s-by-%ld", gap > 0 ? "short" : "long", a);
	} else {
		snprintf(buf, bsz, "%s-by-many", gap > 0 ? "short" : "long");
	}
	return buf;
}

static void
h2g_year(int s, int HY)
{
	const struct tab_s t = table(s);
	char sig[160], b1[32], b2[32];
	long zprev = 0;
	bool have_prev = false;
	long nin = 0, nout = 0;
	long zlast = 0;

	for (int m = 1; m <= 12; m++) {
		const int cov = hcover(&t, HY, m);
		unsigned nd;

		vd_beat();
		if (cov == 2) {
			/* the month that begins at the table's closing entry: its length is not in the table, so whether
			 * it belongs to the calendar is left open -- but the two directions must agree: a date that maps
			 * must come back as itself */
			for (unsigned d = 1; d <= 29; d++) {
				const echs_instant_t h = mkinst(s, HY, m, d);
				const echs_instant_t g = echs_instant_rescale(h, SCALE_GREGORIAN);
				vd_sh->evals++;
				if (!echs_nul_instant_p(g)) {
					const echs_instant_t back = echs_instant_rescale(g, (echs_scale_t)s);
					if (echs_nul_instant_p(back) || back.y != h.y || back.m != h.m || back.d != h.d) {
						snprintf(sig, sizeof(sig), "cover-last-month-one-way/%s", tname[s]);
						vd_viol(sig, "%s: Hijri %d-%02d-%02u (the month at the table's closing entry) maps to %s, which maps back to %s",
							sname[s], HY, m, d, hstr(b1, sizeof(b1), g), echs_nul_instant_p(back) ? "nul" : hstr(b2, sizeof(b2), back));
						break;
					}
				}
			}
			have_prev = false;
			continue;
		} else if (cov != 0) {
			/* every day 1..29 must be rejected */
			for (unsigned d = 1; d <= 29; d++) {
				const echs_instant_t g = echs_instant_rescale(mkinst(s, HY, m, d), SCALE_GREGORIAN);
				vd_sh->evals++;
				nout++;
				if (!echs_nul_instant_p(g)) {
					snprintf(sig, sizeof(sig), "cover-h2g-not-rejected/%s/%s", tname[s], covname(cov));
					vd_viol(sig, "%s: Hijri %d-%02d-%02u lies %s the table (months %ld..%ld = %ld-%02ld..%ld-%02ld) but maps to %s instead of nul",
						sname[s], HY, m, d, covname(cov), t.sm, t.sm + t.nm - 2,
						t.sm / 12 + 1, t.sm % 12 + 1, (t.sm + t.nm - 2) / 12 + 1, (t.sm + t.nm - 2) % 12 + 1,
						hstr(b1, sizeof(b1), g));
				}
			}
			have_prev = false;
			continue;
		}
		nd = echs_scale_ndim((echs_scale_t)s, HY, m);
		if (nd != 29 && nd != 30) {
			/* not part of the property (which is about consistency); counted and shown */
			vd_count("months_reported_not_29_or_30_days", 1);
			vd_sample("h2g %s: echs_scale_ndim(%d,%d)=%u (not judged)", sname[s], HY, m, nd);
			if (nd < 1 || nd > 31) {
				snprintf(sig, sizeof(sig), "ndim-absurd/%s/m%s", tname[s], m == 12 ? "12" : "1-11");
				vd_viol(sig, "%s: echs_scale_ndim(%d,%d)=%u for a month inside the calendar", sname[s], HY, m, nd);
				have_prev = false;
				continue;
			}
		}
		for (unsigned d = 1; d <= nd; d++) {
			const echs_instant_t h = mkinst(s, HY, m, d);
			const echs_instant_t g = echs_instant_rescale(h, SCALE_GREGORIAN);
			echs_instant_t back;
			long z;
			int w;

			vd_sh->evals++;
			nin++;
			if (echs_nul_instant_p(g)) {
				snprintf(sig, sizeof(sig), "h2g-nul/%s", tname[s]);
				vd_viol(sig, "%s: Hijri %d-%02d-%02u maps to nul", sname[s], HY, m, d);
				have_prev = false;
				continue;
			}
			if (echs_instant_scale(g) != SCALE_GREGORIAN || g.intra != h.intra ||
			    g.m < 1 || g.m > 12 || g.d < 1 || (int)g.d > cvl_ndim(g.y, g.m)) {
				snprintf(sig, sizeof(sig), "h2g-not-a-date/%s", tname[s]);
				vd_viol(sig, "%s: Hijri %d-%02d-%02u maps to %u-%02u-%02u (scale %d, time part %#x)", sname[s], HY, m, d,
					g.y, g.m, g.d, (int)echs_instant_scale(g), g.intra);
				have_prev = false;
				continue;
			}
			z = cvl_days(g.y, g.m, g.d);
			zlast = z;
			/* way back */
			back = echs_instant_rescale(g, (echs_scale_t)s);
			if (back.u != h.u) {
				snprintf(sig, sizeof(sig), "roundtrip/%s/%s", tname[s], worse(hclass(s, h), hclass(s, back)));
				vd_viol(sig, "%s: %d-%02d-%02u -> %u-%02u-%02u -> %s", sname[s], HY, m, d, g.y, g.m, g.d, hstr(b1, sizeof(b1), back));
			}
			/* succession; the first of a month follows the last of the month before,
			 * which is the month-length clause */
			if (have_prev && z != zprev + 1) {
				if (d == 1) {
					const int pm = m - 1;	/* have_prev is reset per year, so pm >= 1 */
					snprintf(sig, sizeof(sig), "ndim-vs-first-of-month-distance/%s/m%s/%s", tname[s], pm == 12 ? "12" : "1-11",
						 offby(b2, sizeof(b2), z - zprev - 1));
					vd_viol(sig, "%s: echs_scale_ndim(%d,%d)=%u but the first days of months %d and %d are %ld days apart",
						sname[s], HY, pm, echs_scale_ndim((echs_scale_t)s, HY, pm), pm, m,
						z - zprev - 1 + (long)echs_scale_ndim((echs_scale_t)s, HY, pm));
				} else {
					snprintf(sig, sizeof(sig), "succession/%s/%s", tname[s], hclass(s, h));
					vd_viol(sig, "%s: %d-%02d-%02u -> %u-%02u-%02u which is %+ld days from the image of the day before",
						sname[s], HY, m, d, g.y, g.m, g.d, z - zprev);
				}
			}
			/* weekday */
			w = (int)echs_scale_wday((echs_scale_t)s, HY, m, d);
			if (w != cvl_wday(z)) {
				snprintf(sig, sizeof(sig), "wday/%s/%s", tname[s], hclass(s, h));
				vd_viol(sig, "%s: echs_scale_wday(%d,%d,%u)=%d but its image %u-%02u-%02u is weekday %d", sname[s],
					HY, m, d, w, g.y, g.m, g.d, cvl_wday(z));
			}
			zprev = z;
			have_prev = true;
		}
	}
	/* month 12: distance to 1 Muharram of the next year */
	if (hcover(&t, HY, 12) == 0 && hcover(&t, HY + 1, 1) != 1 && have_prev) {
		const echs_instant_t g = echs_instant_rescale(mkinst(s, HY + 1, 1, 1), SCALE_GREGORIAN);
		vd_sh->evals++;
		if (!echs_nul_instant_p(g) && g.m >= 1 && g.m <= 12 && g.d >= 1) {
			const long z = cvl_days(g.y, g.m, g.d);
			if (z != zprev + 1) {
				snprintf(sig, sizeof(sig), "ndim-vs-first-of-month-distance/%s/m12/%s", tname[s],
					 offby(b2, sizeof(b2), z - zprev - 1));
				vd_viol(sig, "%s: echs_scale_ndim(%d,12)=%u but 1 Muharram %d is %ld days after 1 Dhu al-Hijja %d",
					sname[s], HY, echs_scale_ndim((echs_scale_t)s, HY, 12), HY + 1,
					z - zprev - 1 + (long)echs_scale_ndim((echs_scale_t)s, HY, 12), HY);
			}
		}
	}
	if (nin) {
		struct cvl_ymd_s c = cvl_civil(zlast);
		NONTRIVIAL();
		vd_sample("h2g %s: every date of AH %d (%ld dates inside, %ld outside the table); last image %04d-%02d-%02d",
			  sname[s], HY, nin, nout, c.y, c.m, c.d);
	}
	vd_count("h2g_dates_inside_coverage", nin);
	vd_count("h2g_dates_outside_coverage", nout);
}

/* ------------------------------------------------------------- stream */
static const struct {
	const char *name;
	int s;
} pname[] = {
	{"HIJRI", SCALE_HIJRI_UMMULQURA}, {"HIJRI.UMMULQURA", SCALE_HIJRI_UMMULQURA}, {"HIJRI.DIYANET", SCALE_HIJRI_DIYANET},
	{"HIJRI.IA", SCALE_HIJRI_IA}, {"HIJRI.IC", SCALE_HIJRI_IC}, {"HIJRI.IIA", SCALE_HIJRI_IIA}, {"HIJRI.IIC", SCALE_HIJRI_IIC},
	{"HIJRI.IIIA", SCALE_HIJRI_IIIA}, {"HIJRI.IIIC", SCALE_HIJRI_IIIC}, {"HIJRI.IVA", SCALE_HIJRI_IVA}, {"HIJRI.IVC", SCALE_HIJRI_IVC},
};
static const struct {
	const char *freq;
	int count;
} srule[] = {{"DAILY", 200}, {"MONTHLY", 150}, {"YEARLY", 70}};
/* Gregorian DTSTARTs; the Hijri day of month they fall on differs from scale to scale */
static const int sstart[][3] = {
	{1940, 6, 15}, {1975, 11, 30}, {2000, 2, 9}, {2020, 1, 1}, {2024, 7, 7}, {2050, 8, 8}, {2070, 1, 20},
	{2000, 4, 5}, {2000, 4, 6}, {2000, 4, 7},
};

static const char*
fillclass(int k)
{
	/* the stream computes 63 occurrences per fill */
	return k < 63 ? "first-fill" : k < 126 ? "second-fill" : "later-fill";
}

/* is the Hijri date Y-M-D one the scale has (inside the calendar, day within the month)? */
static bool
hexists_p(int s, const struct tab_s *t, long y, long m, unsigned d)
{
	return hcover(t, y, m) == 0 && d <= echs_scale_ndim((echs_scale_t)s, (unsigned)y, (unsigned)m);
}

static void
stream_case(int pi, int ri, int di)
{
	const int s = pname[pi].s;
	const struct tab_s t = table(s);
	const int cnt = srule[ri].count;
	const long z0 = cvl_days(sstart[di][0], sstart[di][1], sstart[di][2]);
	char text[1024], lines[256], sig[160], b1[32], b2[32];
	echs_task_t tk;
	echs_instant_t h0, hprev;
	long zprev = 0;
	int k;

	snprintf(lines, sizeof(lines), "DTSTART;VALUE=DATE:%04d%02d%02d\nRRULE:FREQ=%s;SCALE=%s;COUNT=%d\n",
		 sstart[di][0], sstart[di][1], sstart[di][2], srule[ri].freq, pname[pi].name, cnt);
	ical_wrap(text, sizeof(text), "c15@verif", lines);
	if (gcover(&t, z0) != 0 || gcover(&t, z0 + 30) != 0) {
		/* DTSTART outside the table (or in its last month): nothing to expect */
		vd_count("stream_events_dtstart_outside_table", 1);
		return;
	}
	h0 = echs_instant_rescale(mkinst(SCALE_GREGORIAN, sstart[di][0], sstart[di][1], sstart[di][2]), (echs_scale_t)s);
	if (echs_nul_instant_p(h0)) {
		return;	/* g2h reports that */
	}
	h0 = echs_instant_detach_scale(h0);
	if (ri > 0 && h0.d >= 30) {
		/* a day not every month has: whether such months are skipped (RFC 5545, what the Gregorian rules do)
		 * or get their last day (what the Hijri rules do) is a matter of the rule expansion, not of the scale */
		vd_count("stream_events_day30_not_judged", 1);
		return;
	}
	tk = ical_task1(text);
	if (tk == NULL || tk->strm == NULL) {
		snprintf(sig, sizeof(sig), "stream/no-task/%s/%s", srule[ri].freq, tname[s]);
		vd_viol(sig, "parser produced no task/stream");
		return;
	}
	hprev = h0;
	for (k = 0; k < cnt + 2; k++) {
		const echs_event_t e = echs_evstrm_pop(tk->strm);
		echs_instant_t h;
		long z;

		vd_sh->evals++;
		if (echs_nul_instant_p(e.from)) {
			break;
		}
		if (k >= cnt) {
			snprintf(sig, sizeof(sig), "stream/beyond-count/%s/%s", srule[ri].freq, tname[s]);
			vd_viol(sig, "occurrence #%d of a COUNT=%d rule", k + 1, cnt);
			break;
		}
		if (echs_instant_scale(e.from) != SCALE_GREGORIAN || !echs_instant_all_day_p(e.from) ||
		    e.from.m < 1 || e.from.m > 12 || e.from.d < 1 || (int)e.from.d > cvl_ndim(e.from.y, e.from.m)) {
			snprintf(sig, sizeof(sig), "stream/not-a-gregorian-date/%s/%s/%s", srule[ri].freq, tname[s], fillclass(k));
			vd_viol(sig, "occurrence #%d is %s (scale %d)", k + 1, inst_str(b1, sizeof(b1), e.from), (int)echs_instant_scale(e.from));
			break;
		}
		z = cvl_days(e.from.y, e.from.m, e.from.d);
		if (k == 0 && z != z0) {
			snprintf(sig, sizeof(sig), "stream/first-is-not-dtstart/%s/%s", srule[ri].freq, tname[s]);
			vd_viol(sig, "first occurrence is %s", inst_str(b1, sizeof(b1), e.from));
			break;
		} else if (k > 0 && z <= zprev) {
			snprintf(sig, sizeof(sig), "stream/not-increasing/%s/%s/%s", srule[ri].freq, tname[s], fillclass(k));
			vd_viol(sig, "occurrence #%d is %s, %ld days before occurrence #%d", k + 1, inst_str(b1, sizeof(b1), e.from), zprev - z, k);
			break;
		}
		if (ri == 0) {
			/* consecutive Hijri days are consecutive Gregorian days */
			if (z != z0 + k) {
				const struct cvl_ymd_s c = cvl_civil(z0 + k);
				snprintf(sig, sizeof(sig), "stream/days-not-consecutive/%s/%s/%s", srule[ri].freq, tname[s], fillclass(k));
				vd_viol(sig, "occurrence #%d is %s, DTSTART + %d days is %04d-%02d-%02d", k + 1, inst_str(b1, sizeof(b1), e.from), k, c.y, c.m, c.d);
				break;
			}
		} else if (k > 0) {
			/* same day of the month (and month), one month (year) on; further only over dates that do not exist */
			long am, pm;
			const long step = ri == 1 ? 1 : 12;
			bool skipped_real = false;

			h = echs_instant_rescale(mkinst(SCALE_GREGORIAN, e.from.y, e.from.m, e.from.d), (echs_scale_t)s);
			if (echs_nul_instant_p(h)) {
				/* outside the calendar: g2h judges that; an occurrence there is not ours to judge */
				break;
			}
			h = echs_instant_detach_scale(h);
			if (h.d != h0.d || (ri == 2 && h.m != h0.m)) {
				snprintf(sig, sizeof(sig), "stream/other-day-of-month/%s/%s/%s", srule[ri].freq, tname[s], fillclass(k));
				vd_viol(sig, "DTSTART is %s %u-%02u-%02u, occurrence #%d is %s = %u-%02u-%02u", sname[s], h0.y, h0.m, h0.d, k + 1,
					inst_str(b1, sizeof(b1), e.from), h.y, h.m, h.d);
				break;
			}
			am = (long)h.y * 12 + (h.m - 1), pm = (long)hprev.y * 12 + (hprev.m - 1);
			for (long q = pm + step; q < am; q += step) {
				skipped_real |= hexists_p(s, &t, q / 12, q % 12 + 1, h0.d);
			}
			if ((am - pm) % step || am <= pm || skipped_real) {
				snprintf(sig, sizeof(sig), "stream/step/%s/%s/%s", srule[ri].freq, tname[s], fillclass(k));
				vd_viol(sig, "occurrence #%d is %s %u-%02u-%02u, occurrence #%d is %u-%02u-%02u (%s)", k, sname[s], hprev.y, hprev.m, hprev.d,
					k + 1, h.y, h.m, h.d, inst_str(b1, sizeof(b1), e.from));
				break;
			}
			hprev = h;
		}
		zprev = z;
	}
	if (k < cnt) {
		/* ended (or abandoned) early: fine only if the calendar ends */
		const echs_event_t e = echs_evstrm_next(tk->strm);
		if (echs_nul_instant_p(e.from)) {
			bool inside;
			if (ri == 0) {
				inside = gcover(&t, z0 + k) == 0 && gcover(&t, z0 + k + 30) == 0;
			} else {
				/* the next date the scale has, looking a few steps ahead; the table must reach beyond it */
				const long step = ri == 1 ? 1 : 12;
				long q = (long)hprev.y * 12 + (hprev.m - 1) + step;
				inside = false;
				for (int a = 0; a < 6 && !inside; a++, q += step) {
					inside = hexists_p(s, &t, q / 12, q % 12 + 1, h0.d) && hcover(&t, (q + 2) / 12, (q + 2) % 12 + 1) == 0;
				}
				if (t.mt == NULL) {
					inside = true;
				}
			}
			if (inside && k > 0) {
				snprintf(sig, sizeof(sig), "stream/early-end/%s/%s/%s", srule[ri].freq, tname[s], fillclass(k));
				vd_viol(sig, "the stream ends after %d of %d occurrences (last %s) although the next date lies inside the calendar", k, cnt,
					hstr(b2, sizeof(b2), echs_instant_attach_scale(hprev, (echs_scale_t)s)));
			} else if (!inside) {
				vd_count("stream_events_ending_with_the_table", 1);
			}
		}
	} else {
		NONTRIVIAL();
	}
	vd_sample("stream %s: DTSTART %04d-%02d-%02d (%s %u-%02u-%02u) FREQ=%s;COUNT=%d: %d occurrences read", pname[pi].name,
		  sstart[di][0], sstart[di][1], sstart[di][2], sname[s], h0.y, h0.m, h0.d, srule[ri].freq, cnt, k);
	free_echs_task(tk);
}


/* same date and time of day (the sub-second field is left alone: all-day values carry 0 or all-ones there) */
static bool
same_dt(echs_instant_t a, echs_instant_t b)
{
	return a.y == b.y && a.m == b.m && a.d == b.d && a.H == b.H &&
		(a.H == ECHS_ALL_DAY || (a.M == b.M && a.S == b.S));
}

/* ------------------------------------------------------------- calscale */
/* the calendar-level output scale.  The name is whatever the parser makes of it: the k-th occurrence is judged in
 * the scale it is labelled with, so a name that reads as another variant (known quirk of the name reader) is
 * counted, not reported. */
#define CS_COUNT	1500
#define CS_NSTART	35	/* 1938, 1942, .. 2074: 1500 days > 4 years, the spans overlap */

static void
calscale_case(int pi, int form, int Y)
{
	const long z0 = cvl_days(Y, 1, 1);
	char text[1024], sig[160], b1[32], b2[32], b3[32];
	echs_task_t tk;
	int lbl = -1;
	int k;

	snprintf(text, sizeof(text),
		 "BEGIN:VCALENDAR\nVERSION:2.0\nCALSCALE:%s\nBEGIN:VEVENT\nUID:c15cs@verif\nSUMMARY:true\n"
		 "DTSTART%s:%04d0101%s\nRRULE:FREQ=DAILY;COUNT=%d\nEND:VEVENT\nEND:VCALENDAR\n",
		 pname[pi].name, form ? "" : ";VALUE=DATE", Y, form ? "T120000Z" : "", CS_COUNT);
	tk = ical_task1(text);
	if (tk == NULL || tk->strm == NULL) {
		snprintf(sig, sizeof(sig), "calscale/no-task/%s", form ? "timed" : "allday");
		vd_viol(sig, "parser produced no task/stream");
		return;
	}
	for (k = 0; k < CS_COUNT + 2; k++) {
		const echs_event_t e = echs_evstrm_pop(tk->strm);
		const struct cvl_ymd_s c = cvl_civil(z0 + k);
		echs_instant_t g = mkinst(SCALE_GREGORIAN, c.y, c.m, c.d), want, got;
		struct tab_s t;
		int s;

		vd_sh->evals++;
		if (echs_nul_instant_p(e.from)) {
			break;
		}
		if (k >= CS_COUNT) {
			snprintf(sig, sizeof(sig), "calscale/beyond-count/%s", form ? "timed" : "allday");
			vd_viol(sig, "occurrence #%d of a COUNT=%d rule", k + 1, CS_COUNT);
			break;
		}
		s = (int)echs_instant_scale(e.from);
		if (lbl < 0) {
			lbl = s;
			if (s != pname[pi].s) {
				vd_count("calscale_name_read_as_other_scale", 1);
			}
		} else if (s != lbl) {
			snprintf(sig, sizeof(sig), "calscale/label-changes/%s/%s", form ? "timed" : "allday", fillclass(k));
			vd_viol(sig, "occurrence #%d is labelled %s, the ones before %s", k + 1, sname[s], sname[lbl]);
			break;
		}
		t = table(s);
		if (gcover(&t, z0 + k) != 0) {
			/* the table ends (or has not begun): what the stream does there is not ours to judge */
			vd_count("calscale_events_left_at_the_table_end", 1);
			break;
		}
		if (form) {
			g.H = 12, g.M = 0, g.S = 0, g.ms = 0;
		}
		want = echs_instant_detach_scale(echs_instant_rescale(g, (echs_scale_t)s));
		got = echs_instant_detach_tzob(echs_instant_detach_scale(e.from));
		if (!same_dt(got, want)) {
			const char *cls = "other";
			if (got.y == want.y && got.m == want.m + 1U && got.d <= 2U && want.d >= 29U) {
				cls = "end-of-month-becomes-next-month";
			} else if (got.y == want.y && got.m == want.m && got.d == want.d) {
				cls = "time-part";
			}
			snprintf(sig, sizeof(sig), "calscale/not-the-image/%s/%s/%s/%s", form ? "timed" : "allday", tname[s], cls, fillclass(k));
			vd_viol(sig, "occurrence #%d is %s %s; DTSTART + %d days is %04d-%02d-%02d whose image (echs_instant_rescale) is %s; back to Gregorian the delivered date is %s",
				k + 1, sname[s], inst_str(b1, sizeof(b1), got), k, c.y, c.m, c.d, inst_str(b2, sizeof(b2), want),
				inst_str(b3, sizeof(b3), echs_instant_rescale(e.from, SCALE_GREGORIAN)));
			break;
		}
	}
	if (k >= CS_COUNT) {
		NONTRIVIAL();
	} else if (k < CS_COUNT && echs_nul_instant_p(echs_evstrm_next(tk->strm).from)) {
		const struct tab_s t = table(lbl < 0 ? pname[pi].s : lbl);
		/* the stream computes 63 days per fill; a fill that reaches beyond the table is lost as a whole (the
		 * stream ends up to a fill before the table does): that is the stream's matter, not the conversion's */
		if (gcover(&t, z0 + k) == 0 && gcover(&t, z0 + k + 64) == 0) {
			snprintf(sig, sizeof(sig), "calscale/early-end/%s/%s", form ? "timed" : "allday", fillclass(k));
			vd_viol(sig, "the stream ends after %d of %d occurrences although the next 64 days lie inside the calendar", k, CS_COUNT);
		} else {
			vd_count("calscale_ends_a_fill_before_table_end", 1);
		}
	}
	vd_sample("calscale %s: DTSTART %04d-01-01%s FREQ=DAILY;COUNT=%d delivered in %s: %d occurrences compared", pname[pi].name, Y,
		  form ? "T12:00:00Z" : "", CS_COUNT, lbl < 0 ? "?" : sname[lbl], k);
	free_echs_task(tk);
}

/* ------------------------------------------------------------- multirule */
/* An event may carry several RRULEs (and EXRULEs); its occurrences are the union of what the rules give (less the
 * exceptions).  In a calendar with a Hijri CALSCALE every occurrence is delivered in that scale, whichever rule it comes
 * from: converting to the scale is done per rule stream.  Differential oracle: the event with rule i alone gives S_i
 * (that is what modes stream and calscale judge); the event with all rules must give, in chronological order, exactly
 * the set (union of the RRULE S_i) less (union of the EXRULE S_i), every instant labelled like those of S_0, bit for
 * bit the instants the single-rule events delivered.  %s in a rule stands for the scale name (SCALE=%s rules expand in
 * the Hijri calendar).  DTSTART is a Gregorian date; events that reach outside a table calendar are left out. */
struct mrset_s {
	const char *name;
	int nr;
	const char *rule[4];	/* "R..." = RRULE, "X..." = EXRULE; text after the first letter */
	int span;		/* days the rules reach beyond DTSTART at most */
};
static const struct mrset_s mrset[] = {
	{"daily7+daily5", 2, {"RFREQ=DAILY;INTERVAL=7;COUNT=80", "RFREQ=DAILY;INTERVAL=5;COUNT=90"}, 600},
	{"monthly+yearly", 2, {"RFREQ=MONTHLY;COUNT=30", "RFREQ=YEARLY;COUNT=4"}, 1500},
	{"hijri-yearly+hijri-monthly", 2, {"RFREQ=YEARLY;SCALE=%s;COUNT=4", "RFREQ=MONTHLY;SCALE=%s;COUNT=20"}, 1500},
	{"hijri-yearly+hijri-yearend", 2, {"RFREQ=YEARLY;SCALE=%s;COUNT=4", "RFREQ=YEARLY;SCALE=%s;BYMONTH=12;BYMONTHDAY=-1;COUNT=4"}, 1900},
	{"three-rules", 3, {"RFREQ=DAILY;INTERVAL=7;COUNT=80", "RFREQ=DAILY;INTERVAL=5;COUNT=90", "RFREQ=MONTHLY;SCALE=%s;COUNT=12"}, 600},
	{"rrule+exrule", 2, {"RFREQ=DAILY;COUNT=150", "XFREQ=DAILY;INTERVAL=3;COUNT=30"}, 200},
	{"rrule+two-exrules", 3, {"RFREQ=DAILY;COUNT=150", "XFREQ=DAILY;INTERVAL=3;COUNT=30", "XFREQ=DAILY;INTERVAL=5;COUNT=25"}, 200},
	{"two-rrules+exrule", 3, {"RFREQ=DAILY;INTERVAL=2;COUNT=100", "RFREQ=DAILY;INTERVAL=3;COUNT=70", "XFREQ=WEEKLY;COUNT=30"}, 250},
};
#define NMRSET	((int)(sizeof(mrset) / sizeof(*mrset)))
static const int mrstart[][3] = {{1950, 3, 1}, {1999, 12, 25}, {2010, 6, 17}, {2016, 3, 1}};
#define NMRSTART	((int)(sizeof(mrstart) / sizeof(*mrstart)))
#define MR_MAX	1024

/* chronological key of an instant of any scale: Gregorian day number and second of the day */
static int64_t
mr_key(echs_instant_t i)
{
	const echs_instant_t g = echs_instant_detach_scale(echs_instant_rescale(i, SCALE_GREGORIAN));
	int64_t k = (int64_t)cvl_days((int)g.y, (int)g.m, (int)g.d) * 86400;
	if (!echs_instant_all_day_p(i)) {
		k += (int64_t)g.H * 3600 + (int64_t)g.M * 60 + g.S;
	}
	return k;
}

/* the occurrences of the event DTSTART + the rules picked by MASK (as = 'R': EXRULE lines are written as RRULE) */
static int
mr_unroll(echs_instant_t *out, const char *calname, const char *dtstart, const struct mrset_s *S, unsigned mask, bool as_rrule, char *text, size_t tsz)
{
	size_t o;
	echs_task_t tk;
	int n = 0;

	o = (size_t)snprintf(text, tsz, "BEGIN:VCALENDAR\nVERSION:2.0\nCALSCALE:%s\nBEGIN:VEVENT\nUID:c15mr@verif\nSUMMARY:true\n%s\n", calname, dtstart);
	for (int r = 0; r < S->nr; r++) {
		char rule[160];
		if (!(mask >> r & 1U)) continue;
		snprintf(rule, sizeof(rule), S->rule[r] + 1, calname, calname);
		o += (size_t)snprintf(text + o, tsz - o, "%s:%s\n", S->rule[r][0] == 'X' && !as_rrule ? "EXRULE" : "RRULE", rule);
	}
	snprintf(text + o, tsz - o, "END:VEVENT\nEND:VCALENDAR\n");
	tk = ical_task1(text);
	if (tk == NULL || tk->strm == NULL) {
		if (tk) free_echs_task(tk);
		return -1;
	}
	while (n < MR_MAX) {
		const echs_event_t e = echs_evstrm_pop(tk->strm);
		vd_sh->evals++;
		if (echs_nul_instant_p(e.from)) break;
		out[n++] = echs_instant_detach_tzob(e.from);
	}
	free_echs_task(tk);
	return n;
}

static void
multirule_case(int pi, int si, int di, int form)
{
	static echs_instant_t S[4][MR_MAX], M[MR_MAX], X[4 * MR_MAX], E[4 * MR_MAX];
	static char text[2048], mtext[2048];
	const struct mrset_s *R = &mrset[si];
	const int s = pname[pi].s;
	const struct tab_s t = table(s);
	const long z0 = cvl_days(mrstart[di][0], mrstart[di][1], mrstart[di][2]);
	char dtstart[80], sig[200], tail[120], b1[40], b2[40];
	int ns[4], nm, nx = 0, ne = 0, lbl;

	/* the rule set and the scale are in the case description */
	snprintf(tail, sizeof(tail), "%s/%s", strstr(R->name, "exrule") ? "with-exrules" : "rrules-only", form ? "timed" : "allday");
	snprintf(dtstart, sizeof(dtstart), "DTSTART%s:%04d%02d%02d%s", form ? "" : ";VALUE=DATE", mrstart[di][0], mrstart[di][1], mrstart[di][2], form ? "T120000Z" : "");
	if (gcover(&t, z0) != 0 || gcover(&t, z0 + R->span + 64) != 0) {
		vd_count("multirule_events_reaching_outside_table", 1);
		return;
	}
	/* rule by rule */
	for (int r = 0; r < R->nr; r++) {
		ns[r] = mr_unroll(S[r], pname[pi].name, dtstart, R, 1U << r, true, text, sizeof(text));
		if (ns[r] <= 0 || ns[r] >= MR_MAX) {
			snprintf(sig, sizeof(sig), "multirule/single-rule-no-stream/%s", tail);
			vd_viol(sig, "rule %d alone: %s", r + 1, ns[r] < 0 ? "the parser produced no task/stream" : ns[r] ? "the stream does not end" : "no occurrence");
			return;
		}
	}
	lbl = (int)echs_instant_scale(S[0][0]);
	if (lbl != s) {
		vd_count("multirule_name_read_as_other_scale", 1);
	}
	for (int r = 0; r < R->nr; r++) {
		for (int k = 0; k < ns[r]; k++) {
			if ((int)echs_instant_scale(S[r][k]) != lbl) {
				snprintf(sig, sizeof(sig), "multirule/single-rule-label/%s", tail);
				vd_viol(sig, "rule %d alone: occurrence #%d is labelled %s, the first occurrence of rule 1 alone %s", r + 1, k + 1, sname[echs_instant_scale(S[r][k])], sname[lbl]);
				return;
			}
			if (R->rule[r][0] == 'X') {
				X[nx++] = S[r][k];
			} else {
				E[ne++] = S[r][k];
			}
		}
	}
	/* expected: sorted duplicate-free union of the RRULE streams less the EXRULE streams */
	for (int i = 1; i < ne; i++) {
		const echs_instant_t v = E[i];
		const int64_t kv = mr_key(v);
		int j = i;
		for (; j > 0 && mr_key(E[j - 1]) > kv; j--) E[j] = E[j - 1];
		E[j] = v;
	}
	{
		int w = 0;
		for (int i = 0; i < ne; i++) {
			bool drop = w > 0 && E[w - 1].u == E[i].u;
			for (int j = 0; j < nx && !drop; j++) drop = X[j].u == E[i].u;
			if (!drop) E[w++] = E[i];
		}
		ne = w;
	}
	/* all rules in one event */
	nm = mr_unroll(M, pname[pi].name, dtstart, R, (1U << R->nr) - 1U, false, mtext, sizeof(mtext));
	{
		char *q;
		vd_desc("multirule: %s", mtext);
		for (q = vd_sh->desc; *q; q++) if (*q == '\n') *q = ' ';
	}
	if (nm < 0 || nm >= MR_MAX) {
		snprintf(sig, sizeof(sig), "multirule/no-stream/%s", tail);
		vd_viol(sig, "%s", nm < 0 ? "the parser produced no task/stream" : "the stream does not end");
		return;
	}
	for (int k = 0; k < nm; k++) {
		if ((int)echs_instant_scale(M[k]) != lbl) {
			snprintf(sig, sizeof(sig), "multirule/label-differs/%s", tail);
			vd_viol(sig, "occurrence #%d is %s %s, the occurrences of each rule alone are labelled %s (that very day alone: %s)", k + 1, sname[echs_instant_scale(M[k])],
				inst_str(b1, sizeof(b1), echs_instant_detach_scale(M[k])), sname[lbl],
				inst_str(b2, sizeof(b2), echs_instant_detach_scale(echs_instant_rescale(M[k], (echs_scale_t)lbl))));
			return;
		}
		if (k && mr_key(M[k]) < mr_key(M[k - 1])) {
			snprintf(sig, sizeof(sig), "multirule/not-increasing/%s", tail);
			vd_viol(sig, "occurrence #%d (%s %s) lies before occurrence #%d (%s)", k + 1, sname[lbl], inst_str(b1, sizeof(b1), echs_instant_detach_scale(M[k])), k,
				inst_str(b2, sizeof(b2), echs_instant_detach_scale(M[k - 1])));
			return;
		}
	}
	{
		/* as sets (an instant two rules give may come once or twice) */
		int i = 0, k = 0;
		while (i < ne || k < nm) {
			if (k && k < nm && M[k].u == M[k - 1].u) {
				vd_count("multirule_instants_of_two_rules_delivered_twice", 1);
				k++;
				continue;
			}
			if (i < ne && k < nm && E[i].u == M[k].u) {
				i++, k++;
				continue;
			}
			if (i < ne && (k >= nm || mr_key(E[i]) <= mr_key(M[k]))) {
				snprintf(sig, sizeof(sig), "multirule/missing/%s", tail);
				vd_viol(sig, "%s %s is an occurrence of a rule alone%s, the event with all rules delivers %s as occurrence #%d", sname[lbl],
					inst_str(b1, sizeof(b1), echs_instant_detach_scale(E[i])), nx ? " and of no EXRULE alone" : "",
					k < nm ? inst_str(b2, sizeof(b2), echs_instant_detach_scale(M[k])) : "the end of the stream", k + 1);
			} else {
				snprintf(sig, sizeof(sig), "multirule/extra/%s", tail);
				vd_viol(sig, "occurrence #%d is %s %s, which %s", k + 1, sname[lbl], inst_str(b1, sizeof(b1), echs_instant_detach_scale(M[k])),
					nx ? "no RRULE alone delivers or an EXRULE alone delivers" : "no rule alone delivers");
			}
			return;
		}
	}
	NONTRIVIAL();
	vd_sample("multirule CALSCALE:%s %s %s: %d rules alone give %d distinct occurrences after exceptions, the event with all rules the same %d, all labelled %s",
		  pname[pi].name, dtstart, R->name, R->nr, ne, nm, sname[lbl]);
}

/* ------------------------------------------------------------- text */
/* names the reader takes for what they say when the value follows directly (`;SCALE=<name>:<digits>'); HIJRI.IC and
 * HIJRI.IIC are read as IA / IIA (known quirk of the name reader, not a matter of the conversion) and left out */
static const struct {
	const char *name;
	int s;
} xname[] = {
	{"HIJRI", SCALE_HIJRI_UMMULQURA}, {"HIJRI.UMMULQURA", SCALE_HIJRI_UMMULQURA}, {"HIJRI.DIYANET", SCALE_HIJRI_DIYANET},
	{"HIJRI.IA", SCALE_HIJRI_IA}, {"HIJRI.IIA", SCALE_HIJRI_IIA},
	{"HIJRI.IIIA", SCALE_HIJRI_IIIA}, {"HIJRI.IIIC", SCALE_HIJRI_IIIC}, {"HIJRI.IVA", SCALE_HIJRI_IVA}, {"HIJRI.IVC", SCALE_HIJRI_IVC},
};

static const char*
dclass(echs_instant_t h)
{
	/* what the digits look like to a reader that thinks of Gregorian months */
	static const int md[] = {0, 31, 29, 31, 30, 31, 30, 31, 31, 30, 31, 30, 31};
	if (h.m >= 1 && h.m <= 12 && (int)h.d > md[h.m]) {
		return "no-such-gregorian-day";
	} else if (h.d == 30) {
		return "day30";
	} else if (h.m == 2 && h.d == 29) {
		return "02-29";
	}
	return "plain";
}

static void
text_year(int xi, int form, int Y)
{
	static char text[366 * 160 + 256];
	static echs_task_t tk[366];
	static echs_instant_t H[366];
	static long Z[366];
	const int s = xname[xi].s;
	const struct tab_s t = table(s);
	const long zbeg = cvl_days(Y, 1, 1), zend = cvl_days(Y, 12, 31);
	char sig[160], b1[32], b2[32];
	size_t len = 0, n = 0, nt;
	long nok = 0;

	len += (size_t)snprintf(text + len, sizeof(text) - len, "BEGIN:VCALENDAR\nVERSION:2.0\n");
	for (long z = zbeg; z <= zend; z++) {
		const struct cvl_ymd_s c = cvl_civil(z);
		echs_instant_t h;

		if (gcover(&t, z) != 0) {
			continue;
		}
		h = echs_instant_rescale(mkinst(SCALE_GREGORIAN, c.y, c.m, c.d), (echs_scale_t)s);
		if (echs_nul_instant_p(h)) {
			continue;	/* g2h reports that */
		}
		h = echs_instant_detach_scale(h);
		H[n] = h, Z[n] = z;
		len += (size_t)snprintf(text + len, sizeof(text) - len,
			"BEGIN:VEVENT\nUID:c15tx%03zu@verif\nSUMMARY:true\nDTSTART%s;SCALE=%s:%04u%02u%02u%s\nEND:VEVENT\n",
			n, form ? "" : ";VALUE=DATE", xname[xi].name, h.y, h.m, h.d, form ? "T120000Z" : "");
		n++;
	}
	len += (size_t)snprintf(text + len, sizeof(text) - len, "END:VCALENDAR\n");
	vd_sh->evals += (long)n;
	if (n == 0) {
		return;
	}
	nt = ical_tasks(tk, 366, text, len);
	/* tasks come in the order of the text; match them by UID so that a dropped event does not shift the rest */
	for (size_t i = 0, j = 0; i < n; i++) {
		char uid[32];
		const char *tu;
		echs_event_t e;

		snprintf(uid, sizeof(uid), "c15tx%03zu@verif", i);
		tu = j < nt && tk[j]->oid ? obint_name(tk[j]->oid) : NULL;
		if (tu == NULL || strcmp(tu, uid)) {
			const struct cvl_ymd_s c = cvl_civil(Z[i]);
			snprintf(sig, sizeof(sig), "text/rejected/%s/%s/%s", form ? "timed" : "allday", tname[s], dclass(H[i]));
			vd_viol(sig, "%04d-%02d-%02d is %s %s (echs_instant_rescale), but DTSTART%s;SCALE=%s:%04u%02u%02u%s yields no event",
				c.y, c.m, c.d, sname[s], inst_str(b1, sizeof(b1), H[i]), form ? "" : ";VALUE=DATE", xname[xi].name,
				H[i].y, H[i].m, H[i].d, form ? "T120000Z" : "");
			continue;
		}
		e = tk[j]->strm ? echs_evstrm_pop(tk[j]->strm) : (echs_event_t){.from = echs_nul_instant()};
		j++;
		{
			const struct cvl_ymd_s c = cvl_civil(Z[i]);
			echs_instant_t want = mkinst(SCALE_GREGORIAN, c.y, c.m, c.d);
			if (form) {
				want.H = 12, want.M = 0, want.S = 0, want.ms = 0;
			}
			if (echs_nul_instant_p(e.from)) {
				snprintf(sig, sizeof(sig), "text/no-occurrence/%s/%s/%s", form ? "timed" : "allday", tname[s], dclass(H[i]));
				vd_viol(sig, "%04d-%02d-%02d written as DTSTART%s;SCALE=%s:%04u%02u%02u%s yields an event without occurrence",
					c.y, c.m, c.d, form ? "" : ";VALUE=DATE", xname[xi].name, H[i].y, H[i].m, H[i].d, form ? "T120000Z" : "");
			} else if (!same_dt(echs_instant_detach_tzob(e.from), want) || echs_instant_scale(e.from) != SCALE_GREGORIAN) {
				snprintf(sig, sizeof(sig), "text/roundtrip/%s/%s/%s", form ? "timed" : "allday", tname[s], dclass(H[i]));
				vd_viol(sig, "%04d-%02d-%02d is %s %s, but DTSTART%s;SCALE=%s:%04u%02u%02u%s reads back as %s (scale label %d)",
					c.y, c.m, c.d, sname[s], inst_str(b1, sizeof(b1), H[i]), form ? "" : ";VALUE=DATE", xname[xi].name,
					H[i].y, H[i].m, H[i].d, form ? "T120000Z" : "", inst_str(b2, sizeof(b2), e.from), (int)echs_instant_scale(e.from));
			} else {
				nok++;
			}
		}
	}
	for (size_t j = 0; j < nt; j++) {
		free_echs_task(tk[j]);
	}
	if (nok == (long)n) {
		NONTRIVIAL();
	}
	vd_count("text_dates_written", (long)n);
	vd_count("text_dates_read_back_as_themselves", nok);
	vd_sample("text %s (%s): %zu days of %d written in %s digits, %ld read back as themselves; e.g. %04u%02u%02u", xname[xi].name,
		  form ? "date-time" : "date", n, Y, sname[s], nok, H[n - 1].y, H[n - 1].m, H[n - 1].d);
}

static void
enumerate(void)
{
	const char *mode = vd_opt("mode", "g2h");
	const int y0 = (int)vd_opt_l("y0", 1901), y1 = (int)vd_opt_l("y1", 2099);
	const int h0 = (int)vd_opt_l("h0", 1319), h1 = (int)vd_opt_l("h1", 1522);

	vd_count_cases = 0;
	nocount = (int)vd_opt_l("nocount", 0);
	if (cvl_selftest() < 0) {
		fprintf(stderr, "c15: civil calendar reference fails its self test\n");
		_exit(3);
	}
	zone[0] = echs_tzob("Europe/Berlin", 13U);
	zone[1] = echs_tzob("America/New_York", 16U);
	if (!strcmp(mode, "g2h")) {
		for (int Y = y0; Y <= y1; Y++) {
			for (int s = SCALE_HIJRI_IA; s <= SCALE_HIJRI_DIYANET; s++) {
				if (!vd_next()) continue;
				vd_desc("g2h scale=%s every day of Gregorian year %d", sname[s], Y);
				vd_shape("g2h/%s", tname[s]);
				g2h_year(s, Y);
			}
		}
	} else if (!strcmp(mode, "h2g")) {
		for (int HY = h0; HY <= h1; HY++) {
			for (int s = SCALE_HIJRI_IA; s <= SCALE_HIJRI_DIYANET; s++) {
				if (!vd_next()) continue;
				vd_desc("h2g scale=%s every date of Hijri year %d", sname[s], HY);
				vd_shape("h2g/%s", tname[s]);
				h2g_year(s, HY);
			}
		}
	} else if (!strcmp(mode, "interleave")) {
		/* history independence: a conversion must not depend on which conversion (into which scale, of which
		 * day) was done before it.  R[s][day] is taken scale by scale (the order the g2h mode validates), then
		 * for every ordered pair of scales (s1, s2), every day z of the year and every distance dz the calls
		 * g(z) -> s1, g(z + dz) -> s2, R[s2][z + dz] -> Gregorian are made back to back and compared with R and g */
		static const int dz[] = {0, 1, -1, 40, -400};
		static uint64_t R[SCALE_HIJRI_DIYANET + 1][366 + 802], B[SCALE_HIJRI_DIYANET + 1][366 + 802];
		for (int Y = y0; Y <= y1; Y++) {
			const long zbeg = cvl_days(Y, 1, 1), zend = cvl_days(Y, 12, 31);
			if (!vd_next()) continue;
			vd_desc("interleave: all ordered pairs of scales over every day of Gregorian year %d", Y);
			vd_shape("interleave");
			for (int s2 = SCALE_HIJRI_IA; s2 <= SCALE_HIJRI_DIYANET; s2++) {
				for (long z = zbeg - 401; z <= zend + 400; z++) {
					const struct cvl_ymd_s c = cvl_civil(z);
					echs_instant_t h;
					if (c.y < 1901 || c.y > 2099) { R[s2][z - zbeg + 401] = 0; continue; }
					h = echs_instant_rescale(mkinst(SCALE_GREGORIAN, c.y, c.m, c.d), (echs_scale_t)s2);
					R[s2][z - zbeg + 401] = h.u;
					B[s2][z - zbeg + 401] = echs_nul_instant_p(h) ? 0 : echs_instant_rescale(h, SCALE_GREGORIAN).u;
				}
			}
			for (int s1 = SCALE_HIJRI_IA; s1 <= SCALE_HIJRI_DIYANET; s1++) {
				for (int s2 = SCALE_HIJRI_IA; s2 <= SCALE_HIJRI_DIYANET; s2++) {
					int reported = 0;
					if (s1 == s2) continue;
					vd_beat();
					for (long z = zbeg; z <= zend && !reported; z++) {
						const struct cvl_ymd_s c = cvl_civil(z);
						const echs_instant_t g1 = mkinst(SCALE_GREGORIAN, c.y, c.m, c.d);
						for (size_t k = 0; k < sizeof(dz) / sizeof(*dz); k++) {
							const long z2 = z + dz[k];
							const struct cvl_ymd_s c2 = cvl_civil(z2);
							echs_instant_t g2, h2, want, back;
							char sig[160], b1[32], b2[32], b3[32];
							if (c2.y < 1901 || c2.y > 2099) continue;
							g2 = mkinst(SCALE_GREGORIAN, c2.y, c2.m, c2.d);
							want.u = R[s2][z2 - zbeg + 401];
							vd_sh->evals += 3;
							(void)echs_instant_rescale(g1, (echs_scale_t)s1);
							h2 = echs_instant_rescale(g2, (echs_scale_t)s2);
							if (h2.u != want.u) {
								snprintf(sig, sizeof(sig), "history/g2h/%s-after-%s", tname[s2], tname[s1]);
								vd_viol(sig, "%04d-%02d-%02d -> %s gives %s on its own but %s right after %04d-%02d-%02d -> %s",
									c2.y, c2.m, c2.d, sname[s2], hstr(b1, sizeof(b1), want), hstr(b2, sizeof(b2), h2), c.y, c.m, c.d, sname[s1]);
								reported = 1;
								break;
							}
							if (echs_nul_instant_p(want)) continue;
							(void)echs_instant_rescale(g1, (echs_scale_t)s1);
							back = echs_instant_rescale(want, SCALE_GREGORIAN);
							if (back.u != B[s2][z2 - zbeg + 401]) {
								echs_instant_t alone;
								alone.u = B[s2][z2 - zbeg + 401];
								snprintf(sig, sizeof(sig), "history/h2g/%s-after-%s", tname[s2], tname[s1]);
								vd_viol(sig, "%s %s -> Gregorian gives %s on its own but %s right after %04d-%02d-%02d -> %s",
									sname[s2], hstr(b1, sizeof(b1), want), hstr(b2, sizeof(b2), alone), hstr(b3, sizeof(b3), back), c.y, c.m, c.d, sname[s1]);
								reported = 1;
								break;
							}
						}
					}
				}
			}
			NONTRIVIAL();
			vd_sample("interleave: 90 ordered scale pairs x every day of %d x 5 distances", Y);
		}
	} else if (!strcmp(mode, "stream")) {
		for (size_t ri = 0; ri < sizeof(srule) / sizeof(*srule); ri++) {
			for (size_t di = 0; di < sizeof(sstart) / sizeof(*sstart); di++) {
				for (size_t pi = 0; pi < sizeof(pname) / sizeof(*pname); pi++) {
					if (!vd_next()) continue;
					vd_desc("stream: DTSTART;VALUE=DATE:%04d%02d%02d RRULE:FREQ=%s;SCALE=%s;COUNT=%d read back in Gregorian",
						sstart[di][0], sstart[di][1], sstart[di][2], srule[ri].freq, pname[pi].name, srule[ri].count);
					vd_shape("stream/%s/%s", srule[ri].freq, tname[pname[pi].s]);
					stream_case((int)pi, (int)ri, (int)di);
				}
			}
		}
	} else if (!strcmp(mode, "calscale")) {
		for (int form = 0; form < 2; form++) {
			for (int i = 0; i < CS_NSTART; i++) {
				for (size_t pi = 0; pi < sizeof(pname) / sizeof(*pname); pi++) {
					const int Y = 1938 + 4 * i;
					if (!vd_next()) continue;
					vd_desc("calscale: CALSCALE:%s DTSTART%s:%04d0101%s RRULE:FREQ=DAILY;COUNT=%d, delivered in the calendar's scale",
						pname[pi].name, form ? "" : ";VALUE=DATE", Y, form ? "T120000Z" : "", CS_COUNT);
					vd_shape("calscale/%s/%s", form ? "timed" : "allday", tname[pname[pi].s]);
					calscale_case((int)pi, form, Y);
				}
			}
		}
	} else if (!strcmp(mode, "multirule")) {
		for (int form = 0; form < 2; form++) {
			for (int si = 0; si < NMRSET; si++) {
				for (int di = 0; di < NMRSTART; di++) {
					for (size_t pi = 0; pi < sizeof(pname) / sizeof(*pname); pi++) {
						if (!vd_next()) continue;
						vd_desc("multirule: CALSCALE:%s DTSTART %04d-%02d-%02d%s rules %s", pname[pi].name, mrstart[di][0], mrstart[di][1], mrstart[di][2],
							form ? "T12:00:00Z" : "", mrset[si].name);
						vd_shape("multirule/%s/%s", strstr(mrset[si].name, "exrule") ? "with-exrules" : "rrules-only", form ? "timed" : "allday");
						multirule_case((int)pi, si, di, form);
					}
				}
			}
		}
	} else if (!strcmp(mode, "text")) {
		for (int form = 0; form < 2; form++) {
			for (int Y = y0; Y <= y1; Y++) {
				for (size_t xi = 0; xi < sizeof(xname) / sizeof(*xname); xi++) {
					if (!vd_next()) continue;
					vd_desc("text: every day of %d as DTSTART%s;SCALE=%s:<image>%s, one event each, read back in Gregorian",
						Y, form ? "" : ";VALUE=DATE", xname[xi].name, form ? "T120000Z" : "");
					vd_shape("text/%s/%s", form ? "timed" : "allday", tname[xname[xi].s]);
					text_year((int)xi, form, Y);
				}
			}
		}
	} else if (!strcmp(mode, "edge")) {
		/* by-catch: month lengths asked for outside the tables must not crash */
		for (int s = SCALE_HIJRI_UMMULQURA; s <= SCALE_HIJRI_DIYANET; s++) {
			const struct tab_s t = table(s);
			for (int HY = 1300; HY <= 1560; HY++) {
				int cmin = 3, cmax = -3;
				unsigned sum = 0;
				if (!vd_next()) continue;
				for (int m = 1; m <= 12; m++) {
					const int c = hcover(&t, HY, m);
					cmin = c < cmin ? c : cmin, cmax = c > cmax ? c : cmax;
				}
				vd_desc("edge scale=%s echs_scale_ndim(%d, 1..12), months %s..%s the table", sname[s], HY, covname(cmin), covname(cmax));
				vd_shape("ndim-call/%s/%s", sname[s], cmin == cmax ? covname(cmin) : cmin < 0 ? "first-year" : "last-year");
				for (int m = 1; m <= 12; m++) {
					vd_sh->evals++;
					sum += echs_scale_ndim((echs_scale_t)s, HY, m);
				}
				if (cmin != 0 || cmax != 0) {
					NONTRIVIAL();
				}
				vd_sample("edge %s: echs_scale_ndim(%d, 1..12) sums to %u", sname[s], HY, sum);
			}
		}
	} else {
		fprintf(stderr, "unknown mode %s\n", mode);
		_exit(3);
	}
}

int
main(int argc, char *argv[])
{
	return vd_main(argc, argv, enumerate);
}
