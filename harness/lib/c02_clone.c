/* C02 -- the recurrence-set algebra must also hold for a CLONE of an event's stream.
 *
 * clone_echs_evstrm() is part of the stream API (every muxing entry point that keeps its arguments usable
 * goes through it).  A clone taken after k pops must deliver exactly what the event still has to deliver:
 * ((rule instances u RDATE) minus exceptions) without its first k elements; the same holds for a clone of
 * the clone, and for a clone taken while an occurrence has been looked at (echs_evstrm_next) but not popped.
 * Taking clones, popping them and freeing them must not change what the original goes on to deliver.
 *
 * family short (cases first): DTSTART + FREQ=DAILY;COUNT=<count>, DATE-TIME (UTC) or DATE, zero duration;
 *   every subset of the exception universe (all instances, one instant before the first, the two RDATE
 *   instants) as one ascending EXDATE list, crossed with 4 EXRULE choices (none, and three DTSTART-synchronised
 *   rules given by closed formulas) and with RDATE none / both RDATE instants.
 * family long (cases behind the short ones): FREQ=DAILY;COUNT=150 (the rule cache holds 64, so clones are taken
 *   before, at and after a refill) with 6 fixed EXDATE patterns of 10..100 values, ascending, 40 values a line.
 *
 * Per event text (= one case), with E = the expected starts by set algebra (closed form, no code under test):
 *   plain   : the freshly parsed stream popped to its end must deliver E (otherwise the case is reported under
 *             plain/... and the clone passes are not judged)
 *   for every k in 0..|E| (|E|: the clone of an exhausted stream), peek in {no, yes}, order in {seq, rr}:
 *     parse afresh, pop k, (peek,) c1 = clone(s), c2 = clone(c1), c3 = clone(c2);
 *     seq: pop c3, c2, c1 to their ends, free them, then pop the original to its end
 *     rr : pop s, c1, c2, c3 in turns, one occurrence each, to their ends
 *     each of the four must deliver E[k..].
 * Signatures: <what>/<stream>/<peek|nopeek>/<xshape>/<vt>  with what in not-excluded, wrongly-dropped,
 * rdate-missing, spurious, order, dup, endless and stream in clone, clone-of-clone (c2 and c3; judged only when
 * the clone it was taken from is right), orig.
 *
 * options: fam=short,long   count=8   (ASan variant: count=5)
 */
#include "vdrv.h"
#include <stdbool.h>
#include "ref/icalio.h"
#include "ref/c02_cal.h"
#include "evstrm.h"
#include "event.h"

#define DAY	C2_DAY
#define MAXE	200
#define MAXGOT	(MAXE + 8)

static const char *vtname[] = {"dt", "date"};

struct ev_s {
	int vt;
	int count;
	int64_t o0;
	int nx;
	int64_t x[128];	/* explicit exceptions as written */
	int menu;	/* EXRULE choice, 0 none */
	int nr;
	int64_t r[2];
	const char *xshape;
	/* derived */
	char lines[4096];
	int ne;
	int64_t e[MAXE];	/* expected starts */
};

static const char*
exr_text(int menu)
{
	switch (menu) {
	case 1: return "FREQ=DAILY;INTERVAL=3";
	case 2: return "FREQ=DAILY;COUNT=2";
	case 3: return "FREQ=WEEKLY";
	default: return NULL;
	}
}

static bool
exr_has(const struct ev_s *v, int64_t t)
{
	const int64_t dt = t - v->o0;
	if (dt < 0 || dt % DAY) {
		return false;
	}
	switch (v->menu) {
	case 1: return dt / DAY % 3 == 0;
	case 2: return dt == 0 || dt == DAY;
	case 3: return dt / DAY % 7 == 0;
	default: return false;
	}
}

static bool
in_list(const int64_t *v, int n, int64_t t)
{
	for (int i = 0; i < n; i++) {
		if (v[i] == t) return true;
	}
	return false;
}

static bool
excluded(const struct ev_s *v, int64_t t)
{
	return in_list(v->x, v->nx, t) || exr_has(v, t);
}

/* text and expected starts */
static void
ev_derive(struct ev_s *v, int perline)
{
	char ts[32];
	int o = 0;
	const size_t z = sizeof(v->lines);
	int64_t all[MAXE];
	int nall = 0;

	c2_fmt(ts, sizeof(ts), v->o0, v->vt);
	o += snprintf(v->lines + o, z - o, "DTSTART%s:%s\nRRULE:FREQ=DAILY;COUNT=%d\n", v->vt ? ";VALUE=DATE" : "", ts, v->count);
	for (int i = 0; i < v->nr; i++) {
		c2_fmt(ts, sizeof(ts), v->r[i], v->vt);
		o += snprintf(v->lines + o, z - o, "%s%s%s", i ? "," : v->vt ? "RDATE;VALUE=DATE:" : "RDATE:", ts, i + 1 == v->nr ? "\n" : "");
	}
	if (v->menu) {
		o += snprintf(v->lines + o, z - o, "EXRULE:%s\n", exr_text(v->menu));
	}
	for (int i = 0; i < v->nx; i++) {
		c2_fmt(ts, sizeof(ts), v->x[i], v->vt);
		o += snprintf(v->lines + o, z - o, "%s%s%s", i % perline ? "," : v->vt ? "EXDATE;VALUE=DATE:" : "EXDATE:", ts,
			      i + 1 == v->nx || (i + 1) % perline == 0 ? "\n" : "");
	}
	for (int i = 0; i < v->count; i++) all[nall++] = v->o0 + i * DAY;
	for (int i = 0; i < v->nr; i++) {
		if (!in_list(all, nall, v->r[i])) all[nall++] = v->r[i];
	}
	for (int i = 1; i < nall; i++) {
		for (int j = i; j > 0 && all[j - 1] > all[j]; j--) {
			int64_t t = all[j]; all[j] = all[j - 1]; all[j - 1] = t;
		}
	}
	v->ne = 0;
	for (int i = 0; i < nall; i++) {
		if (!excluded(v, all[i])) v->e[v->ne++] = all[i];
	}
}

struct got_s {
	int n;
	int64_t k[MAXGOT];
	int endless, bad;
};

static void
got_add(struct got_s *g, echs_event_t e, int vt)
{
	int ad;
	int64_t k = c2_key(e.from, &ad);
	if (k < 0 || ad != (vt == 1) || e.dur.d != 0) {
		g->bad = 1;
	}
	if (g->n < MAXGOT) {
		g->k[g->n++] = k;
	} else {
		g->endless = 1;
	}
}

static void
pop_rest(struct got_s *g, echs_evstrm_t s, int vt)
{
	for (;;) {
		echs_event_t e = echs_evstrm_pop(s);
		if (echs_nul_event_p(e)) break;
		if (g->n >= MAXGOT) {
			g->endless = 1;
			break;
		}
		got_add(g, e, vt);
	}
}

static int
keys_str(char *buf, size_t bsz, const int64_t *k, int n, int vt)
{
	int o = 0;
	buf[0] = '\0';
	for (int i = 0; i < n && o + 40 < (int)bsz; i++) {
		if (i) buf[o++] = ' ';
		if (i == 14 && n > 16) {
			o += snprintf(buf + o, bsz - o, "...(%d more)", n - i);
			break;
		}
		o += c2_fmt(buf + o, bsz - o, k[i], vt);
	}
	return o;
}

/* compare what stream WHO delivered with WANT[0..NW) */
static int
judge(const struct ev_s *v, const struct got_s *g, const int64_t *want, int nw, const char *who, const char *ctx, int k, int peek)
{
	char sig[VD_SIGLEN], tail[120], exps[700], gots[700], ts[32];
	int seen = 0;

	const long nv0 = vd_sh->nviol;

	(void)k;
	snprintf(tail, sizeof(tail), "%s/%s/%s/%s", who, peek ? "peek" : "nopeek", v->xshape, vtname[v->vt]);
	keys_str(exps, sizeof(exps), want, nw, v->vt);
	keys_str(gots, sizeof(gots), g->k, g->n, v->vt);
	if (g->endless) {
		snprintf(sig, sizeof(sig), "endless/%s", tail);
		vd_viol(sig, "%s: still delivering after %d occurrences; expected [%s]", ctx, MAXGOT, exps);
		return 1;
	}
	if (g->bad) {
		snprintf(sig, sizeof(sig), "event-shape/%s", tail);
		vd_viol(sig, "%s: an occurrence with an out-of-shape instant, the wrong value type or a duration; got [%s]", ctx, gots);
		return 1;
	}
	for (int i = 1; i < g->n; i++) {
		if (g->k[i] < g->k[i - 1]) {
			snprintf(sig, sizeof(sig), "order/%s", tail);
			vd_viol(sig, "%s: starts not ascending; got [%s]", ctx, gots);
			break;
		}
	}
	for (int i = 0; i < g->n && !(seen & 1); i++) {
		if (in_list(want, nw, g->k[i])) continue;
		c2_fmt(ts, sizeof(ts), g->k[i], v->vt);
		seen |= 1;
		if (excluded(v, g->k[i])) {
			snprintf(sig, sizeof(sig), "not-excluded/%s", tail);
			vd_viol(sig, "%s: %s is named by an exception but delivered; expected [%s] got [%s]", ctx, ts, exps, gots);
		} else {
			snprintf(sig, sizeof(sig), "spurious/%s", tail);
			vd_viol(sig, "%s: %s is not among the occurrences still due; expected [%s] got [%s]", ctx, ts, exps, gots);
		}
	}
	for (int i = 0; i < nw && !(seen & 2); i++) {
		if (in_list(g->k, g->n, want[i])) continue;
		c2_fmt(ts, sizeof(ts), want[i], v->vt);
		seen |= 2;
		snprintf(sig, sizeof(sig), "%s/%s", in_list(v->r, v->nr, want[i]) ? "rdate-missing" : "wrongly-dropped", tail);
		vd_viol(sig, "%s: %s is named by no exception but missing; expected [%s] got [%s]", ctx, ts, exps, gots);
	}
	for (int i = 1; i < g->n && !seen; i++) {
		if (g->k[i] == g->k[i - 1]) {
			c2_fmt(ts, sizeof(ts), g->k[i], v->vt);
			snprintf(sig, sizeof(sig), "dup/%s", tail);
			vd_viol(sig, "%s: %s delivered twice; got [%s]", ctx, ts, gots);
			break;
		}
	}
	return vd_sh->nviol != nv0;
}

static echs_task_t
parse_ev(const struct ev_s *v)
{
	static char text[4608];
	ical_wrap(text, sizeof(text), "c02clone@verif", v->lines);
	return ical_task1(text);
}

static void
run_case(struct ev_s *v, long *passes)
{
	echs_task_t t;
	struct got_s g;
	char sig[VD_SIGLEN], ctx[96];

	{
		char d[1800];
		int j = 0;
		for (int i = 0; v->lines[i] && j + 4 < (int)sizeof(d); i++) {
			if (v->lines[i] == '\n') {
				if (v->lines[i + 1]) d[j++] = ' ', d[j++] = '|', d[j++] = ' ';
			} else {
				d[j++] = v->lines[i];
			}
		}
		d[j] = '\0';
		vd_desc("%s", d);
	}
	vd_shape("clone/%s/%s", v->xshape, vtname[v->vt]);

	/* the stream as parsed */
	if ((t = parse_ev(v)) == NULL) {
		snprintf(sig, sizeof(sig), "precond/parse/%s/%s", v->xshape, vtname[v->vt]);
		vd_viol(sig, "text does not yield a task");
		return;
	}
	vd_sh->evals++;
	memset(&g, 0, sizeof(g));
	if (t->strm != NULL) {
		pop_rest(&g, t->strm, v->vt);
	}
	free_echs_task(t);
	if (g.n != v->ne || g.bad || g.endless || memcmp(g.k, v->e, (size_t)g.n * sizeof(*g.k))) {
		char exps[700], gots[700];
		keys_str(exps, sizeof(exps), v->e, v->ne, v->vt);
		keys_str(gots, sizeof(gots), g.k, g.n, v->vt);
		snprintf(sig, sizeof(sig), "plain/%s/%s", v->xshape, vtname[v->vt]);
		vd_viol(sig, "the stream as parsed (no clone) does not deliver the expected starts; expected [%s] got [%s]", exps, gots);
		return;
	}
	if (v->ne == 0) {
		/* nothing left: the parser hands out no stream or an empty one, clones of it are judged below all the same */
	}
	if (v->nx + (v->menu != 0) >= 2 && v->ne >= 1) {
		vd_nontrivial();
	}
	if (vd_want_sample() && v->nx >= 2 && v->ne >= 2) {
		vd_sample("%s => %d occurrences; clones (x3) after every 0..%d pops, with and without a peek, sequential and in turns", vd_sh->desc, v->ne, v->ne);
	}

	for (int k = 0; k <= v->ne; k++) {
	for (int peek = 0; peek < 2; peek++) {
	for (int rr = 0; rr < 2; rr++) {
		echs_evstrm_t s, c[3];
		struct got_s gs, gc[3];
		bool ok = true;

		if ((t = parse_ev(v)) == NULL || t->strm == NULL) {
			if (t) free_echs_task(t);
			if (v->ne) {
				snprintf(sig, sizeof(sig), "precond/reparse/%s/%s", v->xshape, vtname[v->vt]);
				vd_viol(sig, "the same text gives no stream the second time");
			}
			return;
		}
		vd_sh->evals++;
		(*passes)++;
		vd_beat();
		s = t->strm;
		for (int i = 0; i < k && ok; i++) {
			echs_event_t e = echs_evstrm_pop(s);
			int ad;
			ok = !echs_nul_event_p(e) && c2_key(e.from, &ad) == v->e[i];
		}
		if (ok && peek) {
			echs_event_t e = echs_evstrm_next(s);
			int ad;
			ok = k < v->ne ? (!echs_nul_event_p(e) && c2_key(e.from, &ad) == v->e[k]) : echs_nul_event_p(e);
		}
		if (!ok) {
			snprintf(sig, sizeof(sig), "precond/replay/%s/%s", v->xshape, vtname[v->vt]);
			vd_viol(sig, "the first %d pops%s of a fresh parse differ from the first run", k, peek ? " and the peek" : "");
			free_echs_task(t);
			continue;
		}
		c[0] = clone_echs_evstrm(s);
		c[1] = c[0] ? clone_echs_evstrm(c[0]) : NULL;
		c[2] = c[1] ? clone_echs_evstrm(c[1]) : NULL;
		if (c[0] == NULL || c[1] == NULL || c[2] == NULL) {
			snprintf(sig, sizeof(sig), "noclone/%s/%s/%s", peek ? "peek" : "nopeek", v->xshape, vtname[v->vt]);
			vd_viol(sig, "clone_echs_evstrm() returns NULL after %d pops (%d occurrences still due)", k, v->ne - k);
			for (int i = 0; i < 3; i++) if (c[i]) free_echs_evstrm(c[i]);
			free_echs_task(t);
			continue;
		}
		memset(&gs, 0, sizeof(gs));
		memset(gc, 0, sizeof(gc));
		if (!rr) {
			for (int i = 2; i >= 0; i--) {
				pop_rest(&gc[i], c[i], v->vt);
			}
			for (int i = 0; i < 3; i++) {
				free_echs_evstrm(c[i]);
			}
			pop_rest(&gs, s, v->vt);
		} else {
			bool live[4] = {true, true, true, true};
			for (int any = 1; any;) {
				any = 0;
				for (int i = 0; i < 4; i++) {
					struct got_s *gg = i ? &gc[i - 1] : &gs;
					echs_event_t e;
					if (!live[i]) continue;
					e = echs_evstrm_pop(i ? c[i - 1] : s);
					if (echs_nul_event_p(e) || gg->n >= MAXGOT) {
						gg->endless = !echs_nul_event_p(e);
						live[i] = false;
						continue;
					}
					got_add(gg, e, v->vt);
					any = 1;
				}
			}
			for (int i = 0; i < 3; i++) {
				free_echs_evstrm(c[i]);
			}
		}
		free_echs_task(t);
		snprintf(ctx, sizeof(ctx), "after %d pops%s, %s", k, peek ? " and a peek" : "", rr ? "popped in turns" : "clones popped and freed first");
		/* a clone of a wrong clone is not judged: its failure is a consequence */
		(void)(judge(v, &gc[0], v->e + k, v->ne - k, "clone", ctx, k, peek) ||
		       judge(v, &gc[1], v->e + k, v->ne - k, "clone-of-clone", ctx, k, peek) ||
		       judge(v, &gc[2], v->e + k, v->ne - k, "clone-of-clone", ctx, k, peek));
		judge(v, &gs, v->e + k, v->ne - k, "orig", ctx, k, peek);
	}}}
}

static bool
has_tok(const char *list, const char *tok)
{
	const size_t tl = strlen(tok);
	for (const char *p = list; p && *p; p = strchr(p, ',') ? strchr(p, ',') + 1 : NULL) {
		if (!strncmp(p, tok, tl) && (p[tl] == ',' || p[tl] == '\0')) return true;
	}
	return false;
}

static void
enumerate(void)
{
	const char *fam = vd_opt("fam", "short,long");
	const int count = (int)vd_opt_l("count", 8);
	long passes = 0;

	vd_count_cases = 0;
	if (count < 3 || count > 8) {
		fprintf(stderr, "c02_clone: count must be 3..8\n");
		exit(2);
	}
	if (has_tok(fam, "short")) {
		for (int vt = 0; vt < 2; vt++) {
		for (int menu = 0; menu < 4; menu++) {
		for (int rd = 0; rd < 2; rd++) {
			struct ev_s v = {.vt = vt, .count = count, .menu = menu};
			int64_t u[12];
			int nu = 0;

			v.o0 = c2_dfc(2024, 1, 29) * DAY + (vt ? 0 : 12 * 3600);
			/* RDATE instants: dt: mid-gap behind the third instance, date: the day after the last; and 3 days behind the end */
			int64_t r0 = vt ? v.o0 + count * DAY : v.o0 + 2 * DAY + DAY / 2;
			int64_t r1 = v.o0 + (count + 2) * DAY;
			for (int i = 0; i < count; i++) u[nu++] = v.o0 + i * DAY;
			u[nu++] = v.o0 - DAY;
			u[nu++] = r0;
			u[nu++] = r1;
			if (rd) {
				v.nr = 2, v.r[0] = r0, v.r[1] = r1;
			}
			for (unsigned m = 0; m < (1U << nu); m++) {
				if (!vd_next()) continue;
				v.nx = 0;
				for (int i = 0; i < nu; i++) {
					if (m >> i & 1U) v.x[v.nx++] = u[i];
				}
				for (int i = 1; i < v.nx; i++) {
					for (int j = i; j > 0 && v.x[j - 1] > v.x[j]; j--) {
						int64_t t = v.x[j]; v.x[j] = v.x[j - 1]; v.x[j - 1] = t;
					}
				}
				v.xshape = menu ? (v.nx ? "exrule+list" : "exrule") : v.nx >= 2 ? "list" : v.nx ? "one" : "none";
				ev_derive(&v, 1000);
				run_case(&v, &passes);
			}
		}}}
	}
	if (has_tok(fam, "long")) {
		for (int vt = 0; vt < 2; vt++) {
		for (int pat = 0; pat < 6; pat++) {
			struct ev_s v = {.vt = vt, .count = 150, .menu = 0, .xshape = "longlist"};

			if (!vd_next()) continue;
			v.o0 = c2_dfc(2024, 1, 29) * DAY + (vt ? 0 : 12 * 3600);
			for (int i = 0; i < 150; i++) {
				bool x;
				switch (pat) {
				case 0: x = i % 2 == 1 && i < 120; break;		/* every second, 60 */
				case 1: x = i % 3 == 0 && i < 150; break;		/* every third, 50 */
				case 2: x = i >= 40 && i < 100; break;		/* a run over the refill at 64 */
				case 3: x = i < 70; break;			/* the whole first cache and more */
				case 4: x = i >= 60 && i < 70; break;		/* 10 around the refill */
				default: x = i % 10 != 9 && i >= 20 && i < 130; break;	/* all but every tenth, 99 */
				}
				if (x) v.x[v.nx++] = v.o0 + i * DAY;
			}
			ev_derive(&v, 40);
			run_case(&v, &passes);
		}}
	}
	vd_count("clone_passes", passes);
}

int
main(int argc, char *argv[])
{
	return vd_main(argc, argv, enumerate);
}
