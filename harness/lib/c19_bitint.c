/* C19 -- the six small-integer set containers behave as sets.
 *
 * Enumerates insertion sequences, compares membership / emptiness / iteration
 * with a bool[] reference.  Iteration uses the idiom of every caller in
 * evrrul.c / evical.c:  for (it = 0; (x = next(&it, set), it);) ...
 *
 * case = (container, seq-length, prefix of the sequence); the last element of
 * the sequence is looped inside the case.
 * options: mode=pairs|triples|alpha3|subsets  (what to enumerate)
 */
#include "vdrv.h"
#include <stdbool.h>
#include "bitint.h"

enum {T_BUI31, T_BUI63, T_BI31, T_BI63, T_BI383, T_BI447, NTYPES};
static const char *tname[] = {"bui31", "bui63", "bi31", "bi63", "bi383", "bi447"};
static const int tlo[] = {0, 0, -31, -63, -383, -447};
static const int thi[] = {30, 62, 31, 63, 383, 447};

#define OFF	447
#define RNG	(2 * OFF + 1)

struct any_s {
	bituint31_t u31;
	bituint63_t u63;
	bitint31_t i31;
	bitint63_t i63;
	bitint383_t i383;
	bitint447_t i447;
};

static void
ins(int t, struct any_s *a, int x)
{
	switch (t) {
	case T_BUI31: a->u31 = ass_bui31(a->u31, (unsigned)x); break;
	case T_BUI63: a->u63 = ass_bui63(a->u63, (unsigned)x); break;
	case T_BI31: a->i31 = ass_bi31(a->i31, x); break;
	case T_BI63: a->i63 = ass_bi63(a->i63, x); break;
	case T_BI383: ass_bi383(&a->i383, x); break;
	case T_BI447: ass_bi447(&a->i447, x); break;
	}
}

static bool
nonempty(int t, struct any_s *a)
{
	switch (t) {
	case T_BUI31: return bui31_has_bits_p(a->u31);
	case T_BUI63: return bui63_has_bits_p(a->u63);
	case T_BI31: return bi31_has_bits_p(a->i31);
	case T_BI63: return bi63_has_bits_p(a->i63);
	case T_BI383: return bi383_has_bits_p(&a->i383);
	default: return bi447_has_bits_p(&a->i447);
	}
}

static int
nxt(int t, bitint_iter_t *it, struct any_s *a)
{
	switch (t) {
	case T_BUI31: return (int)bui31_next(it, a->u31);
	case T_BUI63: return (int)bui63_next(it, a->u63);
	case T_BI31: return bi31_next(it, a->i31);
	case T_BI63: return bi63_next(it, a->i63);
	case T_BI383: return bi383_next(it, &a->i383);
	default: return bi447_next(it, &a->i447);
	}
}

static const char*
setkind(const int *seq, int n)
{
	bool mem[RNG] = {false};
	int np = 0, nn = 0, nz = 0;
	for (int i = 0; i < n; i++) {
		if (!mem[seq[i] + OFF]) {
			mem[seq[i] + OFF] = true;
			np += seq[i] > 0, nn += seq[i] < 0, nz += seq[i] == 0;
		}
	}
	if (np + nn + nz == 0) return "empty";
	if (nz && !np && !nn) return "zero-only";
	if (np + nn + nz == 1) return np ? "one-pos" : "one-neg";
	if (nn && !np && !nz) return "neg-only";
	if (nn && !np && nz) return "neg-and-zero";
	if (np && !nn && !nz) return "pos-only";
	if (np && !nn && nz) return "pos-and-zero";
	return "mixed-sign";
}

static const char*
valkind(int t, int x)
{
	if (x == 0) return "zero";
	if (x == thi[t] || x == tlo[t]) return "extreme";
	return x > 0 ? "pos" : "neg";
}

static void
seqstr(char *buf, size_t bsz, const int *seq, int n)
{
	size_t o = 0;
	buf[0] = '\0';
	for (int i = 0; i < n && o + 8 < bsz; i++) {
		o += snprintf(buf + o, bsz - o, "%s%d", i ? "," : "", seq[i]);
	}
}

static long nnontriv_local;
/* sequences that another mode also enumerates are not counted as distinct */
static int count_nontriv = 1;

/* check one insertion sequence */
static void
check(int t, const int *seq, int n)
{
	struct any_s a;
	bool mem[RNG] = {false};
	int seen[RNG] = {0};
	int card = 0;
	char sb[256], sig[128];

	memset(&a, 0, sizeof(a));
	for (int i = 0; i < n; i++) {
		ins(t, &a, seq[i]);
		if (!mem[seq[i] + OFF]) {
			mem[seq[i] + OFF] = true;
			card++;
		}
	}
	/* emptiness */
	if (nonempty(t, &a) != (card > 0)) {
		seqstr(sb, sizeof(sb), seq, n);
		snprintf(sig, sizeof(sig), "has-bits/%s/%s", tname[t], setkind(seq, n));
		vd_viol(sig, "%s insert [%s]: has_bits_p=%d but %d members", tname[t], sb, nonempty(t, &a), card);
	}
	/* membership where the API has it */
	if (t == T_BUI31 || t == T_BI31) {
		for (int x = tlo[t]; x <= thi[t]; x++) {
			bool h = t == T_BUI31
				? bui31_has_bit_p(a.u31, (unsigned)x)
				: bi31_has_bit_p(a.i31, x);
			if (h != mem[x + OFF] && card > 0) {
				seqstr(sb, sizeof(sb), seq, n);
				snprintf(sig, sizeof(sig), "has-bit/%s/%s/%s", tname[t], setkind(seq, n), valkind(t, x));
				vd_viol(sig, "%s insert [%s]: has_bit_p(%d)=%d want %d", tname[t], sb, x, h, mem[x + OFF]);
				break;
			}
		}
	}
	/* iteration */
	{
		bitint_iter_t it = 0U;
		int steps = 0, x, got = 0;
		const int maxsteps = 2 * RNG + 8;

		for (; steps < maxsteps && (x = nxt(t, &it, &a), it); steps++) {
			if (x < -OFF || x > OFF || !mem[x + OFF]) {
				seqstr(sb, sizeof(sb), seq, n);
				snprintf(sig, sizeof(sig), "iter-extra/%s/%s", tname[t], setkind(seq, n));
				vd_viol(sig, "%s insert [%s]: iteration yields %d which was never inserted", tname[t], sb, x);
				return;
			}
			if (seen[x + OFF]++) {
				seqstr(sb, sizeof(sb), seq, n);
				snprintf(sig, sizeof(sig), "iter-dup/%s/%s/%s", tname[t], setkind(seq, n), valkind(t, x));
				vd_viol(sig, "%s insert [%s]: iteration yields %d twice", tname[t], sb, x);
				return;
			}
			got++;
		}
		if (steps >= maxsteps) {
			seqstr(sb, sizeof(sb), seq, n);
			snprintf(sig, sizeof(sig), "iter-nonterm/%s/%s", tname[t], setkind(seq, n));
			vd_viol(sig, "%s insert [%s]: iteration did not end within %d steps", tname[t], sb, maxsteps);
			return;
		}
		if (got != card) {
			int miss = 0;
			for (int v = -OFF; v <= OFF; v++) {
				if (mem[v + OFF] && !seen[v + OFF]) {
					miss = v;
					break;
				}
			}
			seqstr(sb, sizeof(sb), seq, n);
			snprintf(sig, sizeof(sig), "iter-missing/%s/%s/%s", tname[t], setkind(seq, n), valkind(t, miss));
			vd_viol(sig, "%s insert [%s]: iteration yields %d of %d members, e.g. %d missing", tname[t], sb, got, card, miss);
		}
	}
	vd_sh->evals++;
	if (card >= 2 && count_nontriv) {
		nnontriv_local++;
	}
}

/* boundary alphabet for type T, at most 24 values */
static int
alphabet(int t, int *al, int max)
{
	static const int cand_pos[] = {
		0, 1, 2, 30, 31, 32, 33, 62, 63, 64, 65, 382, 383, 384, 446, 447,
		-1, -2, -31, -32, -33, -63, -64, -383, -447, -30, -62, -382,
	};
	/* --opt alph=neg: the negative end first (the smallest value and its neighbours, both containers) */
	static const int cand_neg[] = {
		-447, -446, -445, -383, -382, -381, -1, -2, -63, -64, -65, -31, -32, -33, 0, 447, 383, 1, 63, 31, -30, -62,
	};
	const int negfirst = !strcmp(vd_opt("alph", "pos"), "neg");
	const int *cand = negfirst ? cand_neg : cand_pos;
	const size_t ncand = negfirst ? sizeof(cand_neg) / sizeof(*cand_neg) : sizeof(cand_pos) / sizeof(*cand_pos);
	int n = 0;
	for (size_t i = 0; i < ncand && n < max; i++) {
		if (cand[i] >= tlo[t] && cand[i] <= thi[t]) {
			al[n++] = cand[i];
		}
	}
	/* fill up with mid-range values */
	for (int v = 3; n < max && v <= thi[t]; v += 7) {
		bool dup = false;
		for (int i = 0; i < n; i++) dup |= al[i] == v;
		if (!dup) al[n++] = v;
	}
	return n;
}

static void
enumerate(void)
{
	const char *mode = vd_opt("mode", "pairs");
	int seq[32];

	nnontriv_local = 0;
	vd_count_cases = 0;
	if (!strcmp(mode, "pairs") || !strcmp(mode, "triples")) {
		/* every sequence of length <= 2 (pairs) or == 3 (triples) over the whole range */
		const int tri = !strcmp(mode, "triples");
		for (int t = 0; t < NTYPES; t++) {
			vd_shape("%s/%s", tname[t], mode);
			if (!tri) {
				if (vd_next()) {
					vd_desc("%s: empty set and every single value", tname[t]);
					check(t, seq, 0);
					for (int a = tlo[t]; a <= thi[t]; a++) {
						seq[0] = a;
						check(t, seq, 1);
					}
					vd_sample("%s: [] and [a] for a in %d..%d", tname[t], tlo[t], thi[t]);
				}
				for (int a = tlo[t]; a <= thi[t]; a++) {
					if (!vd_next()) continue;
					vd_desc("%s: [%d,b] for every b", tname[t], a);
					seq[0] = a;
					for (int b = tlo[t]; b <= thi[t]; b++) {
						seq[1] = b;
						check(t, seq, 2);
					}
					vd_sample("%s: [%d,b] for b in %d..%d", tname[t], a, tlo[t], thi[t]);
				}
			} else {
				for (int a = tlo[t]; a <= thi[t]; a++) {
					for (int b = tlo[t]; b <= thi[t]; b++) {
						if (!vd_next()) continue;
						vd_desc("%s: [%d,%d,c] for every c", tname[t], a, b);
						seq[0] = a, seq[1] = b;
						for (int c = tlo[t]; c <= thi[t]; c++) {
							seq[2] = c;
							check(t, seq, 3);
						}
						vd_sample("%s: [%d,%d,c] for c in %d..%d", tname[t], a, b, tlo[t], thi[t]);
					}
				}
			}
		}
	} else if (!strcmp(mode, "alpha3")) {
		/* every sequence of length 3 and 4 over a 24-value boundary alphabet */
		for (int t = 0; t < NTYPES; t++) {
			int al[24];
			int na = alphabet(t, al, 24);
			vd_shape("%s/alpha3", tname[t]);
			for (int i = 0; i < na; i++) {
				for (int j = 0; j < na; j++) {
					if (!vd_next()) continue;
					vd_desc("%s: [%d,%d,c(,d)] over the boundary alphabet", tname[t], al[i], al[j]);
					seq[0] = al[i], seq[1] = al[j];
					for (int k = 0; k < na; k++) {
						seq[2] = al[k];
						count_nontriv = 0;
						check(t, seq, 3);
						count_nontriv = 1;
						for (int l = 0; l < na; l++) {
							seq[3] = al[l];
							check(t, seq, 4);
						}
					}
					vd_sample("%s: [%d,%d,c] and [%d,%d,c,d] over %d boundary values", tname[t], al[i], al[j], al[i], al[j], na);
				}
			}
		}
	} else if (!strcmp(mode, "subsets")) {
		/* subsets of a 16-value boundary alphabet in three orders;
		 * sizes 11..15 cross the native->bitset switch of bi383/bi447.
		 * minsize/maxsize select the subset sizes */
		const int lo = (int)vd_opt_l("minsize", 0), hi = (int)vd_opt_l("maxsize", 16);
		for (int t = 0; t < NTYPES; t++) {
			int al[16];
			int na = alphabet(t, al, 16);
			vd_shape("%s/subsets", tname[t]);
			for (unsigned m = 0; m < (1U << na); m++) {
				int k = __builtin_popcount(m);
				if (k < lo || k > hi) continue;
				if (!vd_next()) continue;
				int n = 0;
				int sorted[16];
				for (int i = 0; i < na; i++) {
					if (m >> i & 1U) sorted[n++] = al[i];
				}
				/* ascending numerically */
				for (int i = 1; i < n; i++) {
					for (int j = i; j > 0 && sorted[j - 1] > sorted[j]; j--) {
						int x = sorted[j]; sorted[j] = sorted[j - 1]; sorted[j - 1] = x;
					}
				}
				char sb[200];
				seqstr(sb, sizeof(sb), sorted, n);
				vd_desc("%s: subset {%s} ascending, descending, rotated", tname[t], sb);
				count_nontriv = n >= 5;
				check(t, sorted, n);
				for (int i = 0; i < n; i++) seq[i] = sorted[n - 1 - i];
				check(t, seq, n);
				for (int i = 0; i < n; i++) seq[i] = sorted[(i + n / 2) % n];
				check(t, seq, n);
				/* with a duplicate of every element appended */
				for (int i = 0; i < n; i++) seq[i] = sorted[i], seq[n + i] = sorted[n - 1 - i];
				check(t, seq, 2 * n);
				vd_sample("%s: subset {%s} in 4 insertion orders", tname[t], sb);
			}
		}
	} else {
		fprintf(stderr, "unknown mode %s\n", mode);
		_exit(3);
	}
	vd_sh->nontriv += nnontriv_local;
}

int
main(int argc, char *argv[])
{
	return vd_main(argc, argv, enumerate);
}
