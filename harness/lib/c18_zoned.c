/* C18 -- the iCalendar text echse itself prints for a zoned event parses back to the same instants.
 *
 * dt_strf_ical() always ends a DATE-TIME in Z; the event printer (echs_task_icalify) uses it for zoned
 * values too and writes DTSTART;TZID=Europe/Berlin:20150105T170000Z, RDATE;TZID=...:...Z,...  Whether
 * such text "parses back to the same instant" cannot be seen at dt_strp() level (the value is right, what
 * matters is how far the text was consumed), so here whole events go through
 *     text -> parser -> stream          (generation 0)
 *          -> echs_task_icalify -> parser -> stream   (generation 1)
 *          -> echs_task_icalify -> parser -> stream   (generation 2)
 * and all three generations must give the same occurrences (start and duration).  No reference is
 * needed: the same event read twice must agree with itself.
 *
 * case = (zone, local date, local time, schedule); all of them in 2015, zones with and without DST,
 * with 30/45-minute offsets, both hemispheres; dates = the 5th of every month + four transition days;
 * schedules = DAILY / WEEKLY+DTEND / MONTHLY / DAILY;INTERVAL=3 / WEEKLY;INTERVAL=2;UNTIL / YEARLY.
 * The printer keeps the TZID only for recurring events, so every schedule recurs; RDATE and EXDATE lists
 * are not written at all (known under C05: remaining/RDATE, remaining/EXDATE), so they cannot be asked here.
 * BY* parts are left out: they are evaluated on the UTC calendar day of DTSTART (known under C07), and the
 * printer writes the next occurrence as the new DTSTART, which may lie on another UTC day than the old one.
 */
#include "vdrv.h"
#include "ref/icalio.h"
#include "ref/c05_common.h"

static const char *const zones[] = {
	"Europe/Berlin", "Europe/London", "Europe/Lisbon", "America/New_York", "America/St_Johns", "America/Sao_Paulo",
	"Australia/Sydney", "Australia/Lord_Howe", "Pacific/Chatham", "Asia/Kolkata", "Asia/Kathmandu", "Asia/Tokyo",
};
#define NZ	((int)(sizeof(zones) / sizeof(*zones)))
static const int dates[][2] = {
	{1, 5}, {2, 5}, {3, 5}, {4, 5}, {5, 5}, {6, 5}, {7, 5}, {8, 5}, {9, 5}, {10, 5}, {11, 5}, {12, 5},
	{3, 8}, {3, 29}, {10, 25}, {11, 1},
};
#define ND	((int)(sizeof(dates) / sizeof(*dates)))
static const int times[][3] = {{0, 0, 0}, {1, 30, 0}, {2, 30, 0}, {12, 0, 0}, {17, 0, 0}, {23, 59, 59}};
#define NT	((int)(sizeof(times) / sizeof(*times)))
static const char *const sname[] = {"DAILY", "WEEKLY+DTEND", "MONTHLY", "DAILY-INTERVAL", "WEEKLY-UNTIL", "YEARLY"};
#define NS	((int)(sizeof(sname) / sizeof(*sname)))
#define NOCC	16

static size_t
event_text(char *buf, size_t bsz, int zi, int di, int ti, int si)
{
	char lines[600], dt[24], dt1[24];
	const char *z = zones[zi];

	snprintf(dt, sizeof(dt), "2015%02d%02dT%02d%02d%02d", dates[di][0], dates[di][1], times[ti][0], times[ti][1], times[ti][2]);
	snprintf(dt1, sizeof(dt1), "2015%02d%02dT%02d%02d%02d", dates[di][0], dates[di][1] + 1, times[ti][0], times[ti][1], times[ti][2]);
	switch (si) {
	case 0:
		snprintf(lines, sizeof(lines), "DTSTART;TZID=%s:%s\nDURATION:PT1H\nRRULE:FREQ=DAILY;COUNT=10\n", z, dt);
		break;
	case 1:
		snprintf(lines, sizeof(lines), "DTSTART;TZID=%s:%s\nDTEND;TZID=%s:%s\nRRULE:FREQ=WEEKLY;COUNT=8\n", z, dt, z, dt1);
		break;
	case 2:
		snprintf(lines, sizeof(lines), "DTSTART;TZID=%s:%s\nDURATION:PT1H\nRRULE:FREQ=MONTHLY;COUNT=8\n", z, dt);
		break;
	case 3:
		snprintf(lines, sizeof(lines), "DTSTART;TZID=%s:%s\nDURATION:PT1H\nRRULE:FREQ=DAILY;INTERVAL=3;COUNT=10\n", z, dt);
		break;
	case 4:
		snprintf(lines, sizeof(lines), "DTSTART;TZID=%s:%s\nDURATION:PT1H\nRRULE:FREQ=WEEKLY;INTERVAL=2;UNTIL=20151231T235959Z\n", z, dt);
		break;
	default:
		snprintf(lines, sizeof(lines), "DTSTART;TZID=%s:%s\nDURATION:PT1H\nRRULE:FREQ=YEARLY;COUNT=5\n", z, dt);
		break;
	}
	return ical_wrap(buf, bsz, "c18-zoned@verif", lines);
}

/* the line of TEXT that starts with KEY, without its line end */
static const char*
line_of(char *buf, size_t bsz, const char *text, const char *key)
{
	const char *p = text;
	size_t kl = strlen(key);
	buf[0] = '\0';
	while (p != NULL && *p) {
		if (!strncmp(p, key, kl)) {
			size_t n = strcspn(p, "\r\n");
			snprintf(buf, bsz, "%.*s", (int)(n < bsz - 1 ? n : bsz - 1), p);
			break;
		}
		p = strchr(p, '\n');
		p = p ? p + 1 : NULL;
	}
	return buf;
}

static void
one_case(int zi, int di, int ti, int si)
{
	static char text[2][8192];
	struct c05_occ o[3][NOCC];
	int n[3] = {0, 0, 0}, more;
	char sig[VD_SIGLEN], b1[32], b2[32], l1[200];
	echs_task_t t;

	event_text(text[0], sizeof(text[0]), zi, di, ti, si);
	for (int g = 0; g < 3; g++) {
		const char *src = text[g & 1];
		ssize_t wl;

		vd_sh->evals++;
		if ((t = ical_task1(src)) == NULL || t->strm == NULL) {
			if (g == 0) {
				/* the event as given is not taken: nothing to compare (not this check's matter) */
				vd_count("events_not_accepted", 1);
				return;
			}
			snprintf(sig, sizeof(sig), "zoned-reparse/no-task/%s/gen%d", sname[si], g);
			vd_viol(sig, "the text written for generation %d yields no task; its DTSTART line: %s", g - 1,
				line_of(l1, sizeof(l1), src, "DTSTART"));
			return;
		}
		/* write before the stream is touched, then read the occurrences */
		{
			const echs_task_t one[1] = {t};
			wl = c05_seria(text[~g & 1], sizeof(text[0]), one, 1U, C05_FORM_ECHSQ);
		}
		n[g] = c05_drain(t->strm, o[g], NOCC, &more);
		free_echs_task(t);
		if (g == 0 && n[0] < 2) {
			vd_count("events_with_fewer_than_2_occurrences", 1);
			return;
		}
		if (g > 0) {
			int i;
			const int nmin = n[g] < n[0] ? n[g] : n[0];
			for (i = 0; i < nmin && o[g][i].from == o[0][i].from; i++);
			if (i < nmin || n[g] != n[0]) {
				snprintf(sig, sizeof(sig), "zoned-reparse/%s/%s/gen%d/%s", i < nmin ? "occurrence-differs" : "count-differs",
					 sname[si], g, i == 0 ? "from-first" : "later");
				vd_viol(sig, "occurrence #%d: as given %s, after %d x (print, parse) %s (%d vs %d occurrences); printed: %s",
					i + 1, i < n[0] ? c05_ustr(b1, sizeof(b1), o[0][i].from) : "(end)",
					g, i < n[g] ? c05_ustr(b2, sizeof(b2), o[g][i].from) : "(end)", n[0], n[g],
					line_of(l1, sizeof(l1), src, "DTSTART"));
				return;
			}
			for (i = 0; i < nmin && o[g][i].dur == o[0][i].dur; i++);
			if (i < nmin) {
				snprintf(sig, sizeof(sig), "zoned-reparse/duration-differs/%s/gen%d", sname[si], g);
				vd_viol(sig, "occurrence #%d (%s): duration as given %lld ms, after %d x (print, parse) %lld ms; printed: %s",
					i + 1, c05_ustr(b1, sizeof(b1), o[0][i].from), (long long)o[0][i].dur, g, (long long)o[g][i].dur,
					line_of(l1, sizeof(l1), src, "DTEND"));
				return;
			}
		}
		if (wl <= 0) {
			snprintf(sig, sizeof(sig), "zoned-reparse/not-written/%s/gen%d", sname[si], g);
			vd_viol(sig, "echs_task_icalify wrote nothing");
			return;
		}
		if (g == 0) {
			/* is the zone still in what was written?  (the rule says non-trivial = yes) */
			if (strstr(text[1], "TZID=") != NULL) {
				vd_nontrivial();
			} else {
				vd_count("events_written_without_tzid", 1);
			}
			vd_sample("%s 2015-%02d-%02dT%02d:%02d:%02d %s: %d occurrences, first %s; written as: %s", zones[zi], dates[di][0], dates[di][1],
				  times[ti][0], times[ti][1], times[ti][2], sname[si], n[0], c05_ustr(b1, sizeof(b1), o[0][0].from),
				  line_of(l1, sizeof(l1), text[1], "DTSTART"));
		}
	}
}

static void
enumerate(void)
{
	vd_count_cases = 0;
	for (int si = 0; si < NS; si++) {
		for (int zi = 0; zi < NZ; zi++) {
			for (int di = 0; di < ND; di++) {
				for (int ti = 0; ti < NT; ti++) {
					if (!vd_next()) continue;
					vd_shape("zoned/%s", sname[si]);
					vd_desc("DTSTART;TZID=%s:2015%02d%02dT%02d%02d%02d schedule %s: parse, print, parse, print, parse",
						zones[zi], dates[di][0], dates[di][1], times[ti][0], times[ti][1], times[ti][2], sname[si]);
					one_case(zi, di, ti, si);
				}
			}
		}
	}
}

int
main(int argc, char *argv[])
{
	return vd_main(argc, argv, enumerate);
}
