/* C02 -- EXDATE / EXRULE remove, RDATE adds: recurrence-set algebra.
 *
 * Every event is iCalendar text run through the real pull parser
 * (ref/icalio.h); the resulting task stream is popped to its end.
 *
 * Oracle (differential, no RFC evaluator): the RDATE- and exception-free
 * variant of the same event gives the rule instances R0 (and is the source
 * of the exception universe U); the RDATE instants RD and the exception
 * instants X are known by construction (they are what the driver wrote into
 * the text; for EXRULE the instance set of a 5-entry menu of DTSTART-
 * synchronised rules is given by a closed formula).  Expected set of starts =
 * (R0 u RD) minus X, matched by START EQUALITY only.
 *   not-excluded     a start in X is delivered
 *   wrongly-dropped  a rule instance not in X is not delivered
 *   rdate-missing    an RDATE instant (not a rule instance) not in X is not delivered
 *   order            starts are not non-decreasing
 *   dup              a start is delivered more often than (1 + it being rule instance AND rdate)
 *   spurious         a start that is neither rule instance nor RDATE (or an endless stream)
 *   precond          the harness' own expectations about the base event failed (value type,
 *                    duration, base instances); the case is not judged
 * Whether an RDATE duplicating a rule instance yields one or two occurrences
 * is not settled by the property: both are accepted.
 *
 * options (tiers differ only here):
 *   counts=35      COUNT values of the base rule (digits)
 *   xforms=list,listrev,lines,linesrev,exrule   exception forms
 *   vts=dt,date    value types
 *   spell=dur,dtend   how a duration > 0 is spelled
 *   rdates=all|none|list   RDATE subsets (list: no several-lines variant)
 *   uni=0|1|2      which mid-gap / inside instants make up the exception universe when
 *                  not all fit (COUNT=5 with a duration); uni=1,2 run only those configurations
 */
#include "vdrv.h"
#include <stdbool.h>
#include "ref/icalio.h"
#include "evstrm.h"
#include "event.h"

enum {VT_DT, VT_DATE, NVT};
enum {RL_DAILY, RL_HOURLY, RL_WEEKLY, NRL};
enum {XF_LIST, XF_LISTREV, XF_LINES, XF_LINESREV, XF_EXRULE, NXF};
enum {RF_NONE, RF_LIST, RF_LINES};
enum {UK_OCC, UK_BEFORE, UK_MID, UK_INSIDE, UK_AFTER};
enum {DC_0, DC_1, DC_HALF, DC_GAPM1, NDC};
#define NMENU	5
#define MAXGOT	40

static const char *vtname[] = {"dt", "date"};
static const char *rlname[] = {"DAILY", "HOURLY", "WEEKLY;BYDAY=MO,TH"};
static const char *xfname[] = {"list", "listrev", "lines", "linesrev", "exrule"};

#define DAY	86400LL

/* -- own calendar arithmetic (days-from-civil), independent of instant.c */
static int64_t
dfc(int y, unsigned m, unsigned d)
{
	y -= m <= 2;
	const int64_t era = (y >= 0 ? y : y - 399) / 400;
	const unsigned yoe = (unsigned)(y - era * 400);
	const unsigned doy = (153 * (m + (m > 2 ? -3 : 9)) + 2) / 5 + d - 1;
	const unsigned doe = yoe * 365 + yoe / 4 - yoe / 100 + doy;
	return era * 146097 + (int64_t)doe - 719468;
}

static void
cfd(int64_t z, int *y, unsigned *m, unsigned *d)
{
	z += 719468;
	const int64_t era = (z >= 0 ? z : z - 146096) / 146097;
	const unsigned doe = (unsigned)(z - era * 146097);
	const unsigned yoe = (doe - doe / 1460 + doe / 36524 - doe / 146096) / 365;
	const unsigned doy = doe - (365 * yoe + yoe / 4 - yoe / 100);
	const unsigned mp = (5 * doy + 2) / 153;
	*d = doy - (153 * mp + 2) / 5 + 1;
	*m = mp < 10 ? mp + 3 : mp - 9;
	*y = (int)(yoe + era * 400) + (*m <= 2);
}

/* iCalendar spelling of T (seconds since the epoch, UTC) */
static int
fmt_t(char *buf, size_t bsz, int64_t t, int vt)
{
	int y;
	unsigned m, d;
	int64_t days = t >= 0 ? t / DAY : -((-t + DAY - 1) / DAY);
	int64_t sod = t - days * DAY;

	cfd(days, &y, &m, &d);
	if (vt == VT_DATE) {
		return snprintf(buf, bsz, "%04d%02u%02u", y, m, d);
	}
	return snprintf(buf, bsz, "%04d%02u%02uT%02d%02d%02dZ", y, m, d,
			(int)(sod / 3600), (int)(sod / 60 % 60), (int)(sod % 60));
}

static int
fmt_dur(char *buf, size_t bsz, int64_t s)
{
	int o = snprintf(buf, bsz, "P");
	if (s / DAY) {
		o += snprintf(buf + o, bsz - o, "%dD", (int)(s / DAY));
	}
	s %= DAY;
	if (s) {
		o += snprintf(buf + o, bsz - o, "T");
		if (s / 3600) o += snprintf(buf + o, bsz - o, "%dH", (int)(s / 3600));
		if (s / 60 % 60) o += snprintf(buf + o, bsz - o, "%dM", (int)(s / 60 % 60));
		if (s % 60) o += snprintf(buf + o, bsz - o, "%dS", (int)(s % 60));
	}
	return o;
}

/* key of an instant delivered by the code under test; -1 if it is out of shape */
static int64_t
ikey(echs_instant_t i, int *allday)
{
	*allday = echs_instant_all_day_p(i);
	if (i.m < 1 || i.m > 12 || i.d < 1 || i.d > 31 || i.y < 1970 || i.y > 2100) {
		return -1;
	}
	if (*allday) {
		return dfc(i.y, i.m, i.d) * DAY;
	}
	if (i.H > 23 || i.M > 59 || i.S > 59) {
		return -1;
	}
	return dfc(i.y, i.m, i.d) * DAY + i.H * 3600 + i.M * 60 + i.S;
}

/* -- configuration of one base event */
struct cfg_s {
	int vt, rule, count, dc, spell, uni;
	int64_t o0;	/* DTSTART */
	int64_t gap;	/* smallest gap between rule instances */
	int64_t dur;	/* seconds */
	int n;
	int64_t occ[8];	/* R0 as delivered by the code under test */
	int nu;
	int64_t u[12];
	int uk[12];
	int nrd;
	int64_t rd[3];
};

static int64_t
cfg_dtstart(int vt, int rule)
{
	switch (rule) {
	case RL_DAILY:	/* Mon 2024-01-29, runs over the leap-year month end */
		return dfc(2024, 1, 29) * DAY + (vt == VT_DT ? 12 * 3600 : 0);
	case RL_HOURLY:	/* runs over midnight */
		return dfc(2024, 1, 1) * DAY + 22 * 3600;
	default:	/* Mon 2024-01-22 */
		return dfc(2024, 1, 22) * DAY + (vt == VT_DT ? 12 * 3600 : 0);
	}
}

/* what the base rule must deliver (closed form; the delivered R0 is checked against it) */
static int64_t
cfg_occ(const struct cfg_s *c, int k)
{
	switch (c->rule) {
	case RL_DAILY: return c->o0 + k * DAY;
	case RL_HOURLY: return c->o0 + k * 3600;
	default: return c->o0 + (k / 2) * 7 * DAY + (k % 2) * 3 * DAY;
	}
}

/* EXRULE menu: text and instance set (closed form, DTSTART-synchronised rules only) */
static int
exr_text(char *buf, size_t bsz, const struct cfg_s *c, int m)
{
	const char *f = c->rule == RL_WEEKLY ? "WEEKLY" : rlname[c->rule];
	const char *by = c->rule == RL_WEEKLY ? ";BYDAY=MO,TH" : "";
	switch (m) {
	case 0: return snprintf(buf, bsz, "FREQ=%s%s;COUNT=1", f, by);
	case 1: return snprintf(buf, bsz, "FREQ=%s;INTERVAL=2%s", f, by);
	case 2: return snprintf(buf, bsz, "FREQ=%s%s;COUNT=2", f, by);
	case 3: return snprintf(buf, bsz, "FREQ=%s%s", f, by);
	default:	/* the next coarser frequency, DTSTART supplies the rest */
		return snprintf(buf, bsz, "FREQ=%s",
				c->rule == RL_HOURLY ? "DAILY" : "WEEKLY");
	}
}

static bool
exr_has(const struct cfg_s *c, int m, int64_t t)
{
	const int64_t dt = t - c->o0;
	if (dt < 0) {
		return false;
	}
	if (c->rule != RL_WEEKLY) {
		const int64_t g = c->rule == RL_DAILY ? DAY : 3600;
		switch (m) {
		case 0: return dt == 0;
		case 1: return dt % (2 * g) == 0;
		case 2: return dt == 0 || dt == g;
		case 3: return dt % g == 0;
		default: return dt % (c->rule == RL_HOURLY ? DAY : 7 * DAY) == 0;
		}
	}
	if (dt % DAY) {
		return false;
	}
	const int64_t d = dt / DAY, w = d / 7, wd = d % 7;
	switch (m) {
	case 0: return d == 0;
	case 1: return (wd == 0 || wd == 3) && w % 2 == 0;
	case 2: return d == 0 || d == 3;
	case 3: return wd == 0 || wd == 3;
	default: return wd == 0;
	}
}

/* -- running one text */
struct got_s {
	int n;
	int64_t k[MAXGOT];
	int bad;	/* out-of-shape instant, wrong value type or wrong duration */
	int endless;
	char badwhy[96];
};

static int
run_text(struct got_s *g, const char *lines, int vt, int64_t dur)
{
	char text[4096];
	echs_task_t t;

	memset(g, 0, sizeof(*g));
	ical_wrap(text, sizeof(text), "c02@verif", lines);
	if ((t = ical_task1(text)) == NULL) {
		return -1;
	}
	if (t->strm == NULL) {
		free_echs_task(t);
		return 0;
	}
	for (;;) {
		echs_event_t e = echs_evstrm_pop(t->strm);
		int ad;
		int64_t k;

		if (echs_nul_event_p(e)) {
			break;
		}
		if (g->n >= MAXGOT) {
			g->endless = 1;
			break;
		}
		k = ikey(e.from, &ad);
		if (k < 0 || ad != (vt == VT_DATE)) {
			g->bad = 1;
			snprintf(g->badwhy, sizeof(g->badwhy), "instant %04u-%02u-%02uT%02u:%02u:%02u out of shape or of the wrong value type",
				 e.from.y, e.from.m, e.from.d, e.from.H, e.from.M, e.from.S);
		} else if (e.dur.d != dur * 1000) {
			g->bad = 1;
			snprintf(g->badwhy, sizeof(g->badwhy), "duration %lld ms, wrote %lld s", (long long)e.dur.d, (long long)dur);
		}
		g->k[g->n++] = k;
	}
	free_echs_task(t);
	return 0;
}

static int
keys_str(char *buf, size_t bsz, const int64_t *k, int n, int vt)
{
	int o = 0;
	buf[0] = '\0';
	for (int i = 0; i < n && o + 24 < (int)bsz; i++) {
		if (i) buf[o++] = ' ';
		o += fmt_t(buf + o, bsz - o, k[i], vt);
	}
	return o;
}

/* property lines of the base event (DTSTART, duration, RRULE) */
static int
base_lines(char *buf, size_t bsz, const struct cfg_s *c)
{
	char ts[32];
	int o = 0;

	fmt_t(ts, sizeof(ts), c->o0, c->vt);
	o += snprintf(buf + o, bsz - o, "DTSTART%s:%s\n", c->vt == VT_DATE ? ";VALUE=DATE" : "", ts);
	if (c->dur > 0 && c->spell == 0) {
		o += snprintf(buf + o, bsz - o, "DURATION:");
		o += fmt_dur(buf + o, bsz - o, c->dur);
		o += snprintf(buf + o, bsz - o, "\n");
	} else if (c->dur > 0) {
		fmt_t(ts, sizeof(ts), c->o0 + c->dur, c->vt);
		o += snprintf(buf + o, bsz - o, "DTEND%s:%s\n", c->vt == VT_DATE ? ";VALUE=DATE" : "", ts);
	}
	o += snprintf(buf + o, bsz - o, "RRULE:FREQ=%s;COUNT=%d\n", rlname[c->rule], c->count);
	return o;
}

/* NAME lines for the instants V[0..N) in the order given; one list or one line each */
static int
dt_lines(char *buf, size_t bsz, const char *name, int vt, const int64_t *v, int n, bool perline)
{
	int o = 0;
	for (int i = 0; i < n; i++) {
		if (i == 0 || perline) {
			o += snprintf(buf + o, bsz - o, "%s%s%s:", i ? "\n" : "", name, vt == VT_DATE ? ";VALUE=DATE" : "");
		} else {
			o += snprintf(buf + o, bsz - o, ",");
		}
		o += fmt_t(buf + o, bsz - o, v[i], vt);
	}
	if (n) {
		o += snprintf(buf + o, bsz - o, "\n");
	}
	return o;
}

static void
add_u(struct cfg_s *c, int64_t t, int kind)
{
	for (int i = 0; i < c->nu; i++) {
		if (c->u[i] == t) {
			return;
		}
	}
	if (c->nu >= 11) {
		fprintf(stderr, "c02: exception universe exceeds 11 elements\n");
		abort();
	}
	c->u[c->nu] = t;
	c->uk[c->nu++] = kind;
}

/* everything derived from the configuration alone (closed form, no code under test) */
static void
cfg_derive(struct cfg_s *c)
{
	const int64_t unit = c->vt == VT_DATE ? DAY : 1;

	c->o0 = cfg_dtstart(c->vt, c->rule);
	c->gap = c->rule == RL_DAILY ? DAY : c->rule == RL_HOURLY ? 3600 : 3 * DAY;
	switch (c->dc) {
	case DC_0: c->dur = 0; break;
	case DC_1: c->dur = unit; break;
	case DC_HALF: c->dur = c->gap / 2; break;
	default: c->dur = c->gap - 1; break;
	}
	c->n = c->count;
	for (int i = 0; i < c->n; i++) {
		c->occ[i] = cfg_occ(c, i);
	}
	/* RDATE universe: new instant in the first gap, duplicate of instance 1, one after the end */
	c->nrd = 0;
	if (c->gap / 2 >= unit && (c->gap / 2) % unit == 0) {
		c->rd[c->nrd++] = c->occ[0] + c->gap / 2;
	} else if (c->gap > unit) {
		c->rd[c->nrd++] = c->occ[0] + unit;
	}
	c->rd[c->nrd++] = c->occ[1];
	c->rd[c->nrd++] = c->occ[c->n - 1] + (c->rule == RL_WEEKLY ? 7 * DAY : 2 * c->gap);

	/* exception universe, at most 11 */
	c->nu = 0;
	for (int i = 0; i < c->n; i++) {
		add_u(c, c->occ[i], UK_OCC);
	}
	/* before the first: half a gap (dt) / one day (date) */
	add_u(c, c->occ[0] - (c->vt == VT_DATE ? DAY : c->gap / 2), UK_BEFORE);
	/* after the last = the RDATE after the end */
	add_u(c, c->rd[c->nrd - 1], UK_AFTER);
	/* mid-gap instants (the first is the new RDATE instant) and instants inside an
	 * instance's span that are not its start.  With 5 instances and a duration only
	 * 4 of the 4 + 5 fit under the cap of 11: universe variant 0 takes the gaps 0,3 and
	 * the spans 1,2; variant 1 the gaps 1,2 and the spans 0,4; variant 2 the spans 0,2,3,4. */
	static const unsigned ugaps[] = {0x9, 0x6, 0x0}, uspans[] = {0x6, 0x11, 0x1d};
	const bool inside_p = c->dur / 2 >= unit;
	const bool pick = c->n == 5 && inside_p;
	for (int i = 0; i + 1 < c->n; i++) {
		const int64_t g2 = (c->occ[i + 1] - c->occ[i]) / 2;
		int64_t t;
		if (g2 >= unit && g2 % unit == 0) {
			t = c->occ[i] + g2;
		} else if (c->occ[i + 1] - c->occ[i] > unit) {
			t = c->occ[i] + unit;
		} else {
			continue;
		}
		if (pick && !(ugaps[c->uni] >> i & 1)) {
			continue;
		}
		add_u(c, t, UK_MID);
	}
	for (int i = 0; inside_p && i < c->n; i++) {
		if (pick && !(uspans[c->uni] >> i & 1)) {
			continue;
		}
		add_u(c, c->occ[i] + c->dur / 2 / unit * unit, UK_INSIDE);
	}
}

/* the RDATE- and exception-free event must deliver exactly the rule instances,
 * with the value type and duration written; says why if not */
static bool
cfg_verify(const struct cfg_s *c, char *why, size_t wsz)
{
	char lines[512];
	struct got_s g;

	base_lines(lines, sizeof(lines), c);
	if (run_text(&g, lines, c->vt, c->dur) < 0) {
		snprintf(why, wsz, "base event does not parse");
		return false;
	}
	if (g.bad || g.endless) {
		snprintf(why, wsz, "base event: %s", g.endless ? "endless stream" : g.badwhy);
		return false;
	}
	if (g.n != c->count) {
		snprintf(why, wsz, "base event delivers %d instances for COUNT=%d", g.n, c->count);
		return false;
	}
	for (int i = 0; i < g.n; i++) {
		if (g.k[i] != c->occ[i]) {
			snprintf(why, wsz, "base event: instance %d is not where the rule puts it", i);
			return false;
		}
	}
	return true;
}

static const char*
durcls(const struct cfg_s *c)
{
	return c->dur == 0 ? "dur0" : c->dur >= c->gap ? "dur>=gap" : "dur>0";
}

struct case_s {
	const struct cfg_s *c;
	int xf, menu;	/* menu >= 0 only for XF_EXRULE */
	int rf;
	int nx;
	int64_t x[12];	/* explicit exceptions, in the order written */
	int nr;
	int64_t r[3];	/* RDATEs, in the order written */
};

static bool
in_list(const int64_t *v, int n, int64_t t)
{
	for (int i = 0; i < n; i++) {
		if (v[i] == t) return true;
	}
	return false;
}

static bool
excluded(const struct case_s *k, int64_t t)
{
	return in_list(k->x, k->nx, t) || (k->menu >= 0 && exr_has(k->c, k->menu, t));
}

/* relation of the nearest offending exception to the (not excluded) start T */
static const char*
relation(const struct case_s *k, int64_t t)
{
	const int64_t d = k->c->dur;
	bool inside = false, before = false;

	for (int i = 0; i < k->nx; i++) {
		inside |= k->x[i] > t && k->x[i] < t + d;
		before |= k->x[i] < t && k->x[i] + d > t;
	}
	if (k->menu >= 0) {
		/* every exrule instant sits on DTSTART + j hours (hourly) resp. j days */
		const int64_t step = k->c->rule == RL_HOURLY ? 3600 : DAY;
		for (int j = 0; j < 48; j++) {
			const int64_t a = k->c->o0 + j * step;
			if (exr_has(k->c, k->menu, a)) {
				inside |= a > t && a < t + d;
				before |= a < t && a + d > t;
			}
		}
	}
	return inside ? "inside" : before ? "before-overlap" : "none";
}

/* true if another exception's span ends exactly at T (it "meets" the occurrence) */
static bool
met_p(const struct case_s *k, int64_t t)
{
	const int64_t d = k->c->dur;
	if (d == 0) {
		return false;
	}
	if (in_list(k->x, k->nx, t - d)) {
		return true;
	}
	return k->menu >= 0 && exr_has(k->c, k->menu, t - d);
}

/* where the exception naming T was written */
static const char*
xwhere(const struct case_s *k, int64_t t)
{
	const bool l = in_list(k->x, k->nx, t);
	if (k->menu >= 0 && exr_has(k->c, k->menu, t)) {
		return l ? "by-both" : "by-exrule";
	}
	if (k->xf == XF_LINES || k->xf == XF_LINESREV) {
		return k->x[k->nx - 1] == t ? "line-last" : "line-earlier";
	}
	return "in-list";
}

static const char*
rwhere(const struct case_s *k, int64_t t)
{
	if (k->rf == RF_LINES) {
		return k->r[k->nr - 1] == t ? "line-last" : "line-earlier";
	}
	return "in-list";
}

static const char*
xfshape(const struct case_s *k)
{
	if (k->xf == XF_EXRULE) {
		return k->nx ? "exrule+list" : "exrule";
	}
	return xfname[k->xf];
}

static char emitted[16][VD_SIGLEN];
static int nemitted;

static bool
first_time(const char *sig)
{
	for (int i = 0; i < nemitted; i++) {
		if (!strcmp(emitted[i], sig)) return false;
	}
	if (nemitted < 16) {
		snprintf(emitted[nemitted++], VD_SIGLEN, "%s", sig);
	}
	return true;
}

static void
run_case(const struct case_s *k)
{
	const struct cfg_s *c = k->c;
	char lines[1536], sig[VD_SIGLEN], exps[400], gots[800], ts[32];
	struct got_s g;
	int o;
	int64_t all[12];
	int nall = 0, nsurv = 0, nhit = 0;
	const char *dcls = durcls(c);

	/* the text */
	o = base_lines(lines, sizeof(lines), c);
	o += dt_lines(lines + o, sizeof(lines) - o, "RDATE", c->vt, k->r, k->nr, k->rf == RF_LINES);
	if (k->menu >= 0) {
		o += snprintf(lines + o, sizeof(lines) - o, "EXRULE:");
		o += exr_text(lines + o, sizeof(lines) - o, c, k->menu);
		o += snprintf(lines + o, sizeof(lines) - o, "\n");
	}
	o += dt_lines(lines + o, sizeof(lines) - o, "EXDATE", c->vt, k->x, k->nx,
		      k->xf == XF_LINES || k->xf == XF_LINESREV);
	{
		/* description: the property lines, " | " separated */
		char d[1536];
		int j = 0;
		for (int i = 0; lines[i] && j + 4 < (int)sizeof(d); i++) {
			if (lines[i] == '\n') {
				if (lines[i + 1]) {
					d[j++] = ' ', d[j++] = '|', d[j++] = ' ';
				}
			} else {
				d[j++] = lines[i];
			}
		}
		d[j] = '\0';
		vd_desc("%s", d);
	}
	nemitted = 0;

	/* expected: R0 u RD, sorted, distinct */
	for (int i = 0; i < c->n; i++) all[nall++] = c->occ[i];
	for (int i = 0; i < k->nr; i++) {
		if (!in_list(all, nall, k->r[i])) all[nall++] = k->r[i];
	}
	for (int i = 1; i < nall; i++) {
		for (int j = i; j > 0 && all[j - 1] > all[j]; j--) {
			int64_t t = all[j]; all[j] = all[j - 1]; all[j - 1] = t;
		}
	}
	/* duration class against the smallest gap of THIS event's instances (rule u RDATE):
	 * the property quantifies over durations that do not reach the next occurrence,
	 * events beyond that are judged all the same but carry their own class */
	for (int i = 1; i < nall; i++) {
		if (c->dur > 0 && c->dur >= all[i] - all[i - 1]) {
			dcls = "dur>=gap";
		}
	}
	vd_shape("%s/%s/%s", dcls, xfshape(k), vtname[c->vt]);
	{
		int64_t ex[12];
		int ne = 0;
		for (int i = 0; i < nall; i++) {
			if (!excluded(k, all[i])) ex[ne++] = all[i]; else nhit++;
		}
		nsurv = ne;
		keys_str(exps, sizeof(exps), ex, ne, c->vt);
	}
	if (nhit && nsurv && strcmp(dcls, "dur>=gap")) {
		vd_nontrivial();
	}
	vd_count("instances_to_be_removed", nhit);
	vd_count("instances_to_be_kept", nsurv);
	{
		int idle = 0;
		for (int i = 0; i < k->nx; i++) idle += !in_list(all, nall, k->x[i]);
		vd_count("exceptions_naming_no_instance", idle);
	}

	if (run_text(&g, lines, c->vt, c->dur) < 0) {
		snprintf(sig, sizeof(sig), "precond/parse/%s/%s/%s", dcls, xfshape(k), vtname[c->vt]);
		vd_viol(sig, "text does not yield a task");
		return;
	}
	keys_str(gots, sizeof(gots), g.k, g.n, c->vt);
	if (g.endless) {
		snprintf(sig, sizeof(sig), "spurious/%s/%s/%s/endless", dcls, xfshape(k), vtname[c->vt]);
		vd_viol(sig, "stream still delivers after %d events; expected [%s] got [%s ...]", MAXGOT, exps, gots);
		return;
	}
	if (g.bad) {
		snprintf(sig, sizeof(sig), "precond/event-shape/%s/%s/%s", dcls, xfshape(k), vtname[c->vt]);
		vd_viol(sig, "%s; got [%s]", g.badwhy, gots);
		return;
	}
	if ((vd_idx / 64) % 4001 == 7) {
		/* spread over the enumeration */
		vd_sample("%s => [%s]", vd_sh->desc, gots);
	}

	/* order */
	for (int i = 1; i < g.n; i++) {
		if (g.k[i] < g.k[i - 1]) {
			snprintf(sig, sizeof(sig), "order/%s/%s/%s", dcls, xfshape(k), vtname[c->vt]);
			if (first_time(sig)) {
				fmt_t(ts, sizeof(ts), g.k[i], c->vt);
				vd_viol(sig, "%s delivered after a later start; got [%s]", ts, gots);
			}
			break;
		}
	}
	/* every delivered start */
	for (int i = 0; i < g.n; i++) {
		const int64_t t = g.k[i];
		int cnt = 0;
		if (in_list(g.k, i, t)) {
			continue;	/* judged at its first appearance */
		}
		for (int j = i; j < g.n; j++) cnt += g.k[j] == t;
		const bool isr = in_list(c->occ, c->n, t), isd = in_list(k->r, k->nr, t);
		const char *what = isr && isd ? "both" : isr ? "rule" : isd ? "rdate" : "neither";
		fmt_t(ts, sizeof(ts), t, c->vt);
		if (!isr && !isd) {
			snprintf(sig, sizeof(sig), "spurious/%s/%s/%s", dcls, xfshape(k), vtname[c->vt]);
			if (first_time(sig)) {
				vd_viol(sig, "%s is neither a rule instance nor an RDATE; expected [%s] got [%s]", ts, exps, gots);
			}
		} else if (excluded(k, t)) {
			snprintf(sig, sizeof(sig), "not-excluded/%s/%s/%s/equal-start%s/%s/%s", dcls, xfshape(k), vtname[c->vt],
				 met_p(k, t) ? "+met" : "", what, xwhere(k, t));
			if (first_time(sig)) {
				vd_viol(sig, "%s is named by an exception but delivered; expected [%s] got [%s]", ts, exps, gots);
			}
		} else if (cnt > 1 + (isr && isd)) {
			snprintf(sig, sizeof(sig), "dup/%s/%s/%s/%s", dcls, xfshape(k), vtname[c->vt], what);
			if (first_time(sig)) {
				vd_viol(sig, "%s delivered %d times; got [%s]", ts, cnt, gots);
			}
		}
	}
	/* every expected start */
	for (int i = 0; i < nall; i++) {
		const int64_t t = all[i];
		if (excluded(k, t) || in_list(g.k, g.n, t)) {
			continue;
		}
		fmt_t(ts, sizeof(ts), t, c->vt);
		if (in_list(c->occ, c->n, t)) {
			snprintf(sig, sizeof(sig), "wrongly-dropped/%s/%s/%s/%s", dcls, xfshape(k), vtname[c->vt], relation(k, t));
			if (first_time(sig)) {
				vd_viol(sig, "rule instance %s is named by no exception but missing; expected [%s] got [%s]", ts, exps, gots);
			}
		} else {
			snprintf(sig, sizeof(sig), "rdate-missing/%s/%s/%s/%s/%s", dcls, xfshape(k), vtname[c->vt], relation(k, t), rwhere(k, t));
			if (first_time(sig)) {
				vd_viol(sig, "RDATE %s is named by no exception but missing; expected [%s] got [%s]", ts, exps, gots);
			}
		}
	}
}

static bool
has_tok(const char *list, const char *tok)
{
	const size_t tl = strlen(tok);
	for (const char *p = list; p && *p; p = strchr(p, ',') ? strchr(p, ',') + 1 : NULL) {
		if (!strncmp(p, tok, tl) && (p[tl] == ',' || p[tl] == '\0')) return true;
	}
	return false;
}

static void
enumerate(void)
{
	const char *counts = vd_opt("counts", "35");
	const char *xforms = vd_opt("xforms", "list,listrev,lines,linesrev,exrule");
	const char *vts = vd_opt("vts", "dt,date");
	const char *spell = vd_opt("spell", "dur,dtend");
	const char *rdates = vd_opt("rdates", "all");
	const int uni = (int)vd_opt_l("uni", 0) % 3;

	for (int vt = 0; vt < NVT; vt++) {
	if (!has_tok(vts, vtname[vt])) continue;
	for (int cnt = 3; cnt <= 5; cnt += 2) {
	if (!strchr(counts, '0' + cnt)) continue;
	for (int rule = 0; rule < NRL; rule++) {
	if (vt == VT_DATE && rule == RL_HOURLY) continue;
	for (int dc = 0; dc < NDC; dc++) {
	if (vt == VT_DATE && dc > DC_1) continue;
	for (int sp = 0; sp < 2; sp++) {
		struct cfg_s c = {.vt = vt, .rule = rule, .count = cnt, .dc = dc, .spell = sp, .uni = uni};
		bool ready = false, ok = false;
		char why[160];

		if (sp == 1 && dc == DC_0) continue;
		if (!has_tok(spell, sp ? "dtend" : "dur")) continue;
		cfg_derive(&c);
		/* variant 1 differs from variant 0 only for 5 instances with a duration of >= 2 units */
		if (uni >= 1 && !(cnt == 5 && c.dur / 2 >= (vt == VT_DATE ? DAY : 1))) continue;
		const int nu_static = c.nu;
		const int nrdm = !strcmp(rdates, "none") ? 1 : 1 << c.nrd;

		for (int rm = 0; rm < nrdm; rm++) {
		for (int rf = RF_LIST; rf <= RF_LINES; rf++) {
		const int nrsel = __builtin_popcount(rm);
		if (rf == RF_LINES && (nrsel < 2 || !strcmp(rdates, "list"))) continue;
		for (int xf = 0; xf < NXF; xf++) {
		if (!has_tok(xforms, xfname[xf])) continue;
		for (int menu = (xf == XF_EXRULE ? 0 : -1); menu < (xf == XF_EXRULE ? NMENU : 0); menu++) {
		for (unsigned m = 0; m < (1U << nu_static); m++) {
			const int nsel = __builtin_popcount(m);
			/* forms that would repeat the text of the list form */
			if (xf != XF_LIST && xf != XF_EXRULE && nsel < 2) continue;
			if (!vd_next()) continue;
			if (!ready) {
				ready = true;
				ok = cfg_verify(&c, why, sizeof(why));
			}
			if (!ok) {
				char sig[VD_SIGLEN];
				vd_desc("base event %s COUNT=%d %s dur-class %d %s", rlname[rule], cnt, vtname[vt], dc, sp ? "DTEND" : "DURATION");
				snprintf(sig, sizeof(sig), "precond/base/%s/%s", vtname[vt], rule == RL_DAILY ? "daily" : rule == RL_HOURLY ? "hourly" : "weekly");
				vd_viol(sig, "%s", why);
				continue;
			}
			struct case_s k = {.c = &c, .xf = xf, .menu = menu, .rf = nrsel ? rf : RF_NONE};
			/* universe elements sorted ascending (or descending for the rev forms) */
			int64_t su[12];
			int ns = 0;
			for (int i = 0; i < c.nu; i++) {
				if (m >> i & 1U) su[ns++] = c.u[i];
			}
			for (int i = 1; i < ns; i++) {
				for (int j = i; j > 0 && su[j - 1] > su[j]; j--) {
					int64_t t = su[j]; su[j] = su[j - 1]; su[j - 1] = t;
				}
			}
			for (int i = 0; i < ns; i++) {
				k.x[i] = (xf == XF_LISTREV || xf == XF_LINESREV) ? su[ns - 1 - i] : su[i];
			}
			k.nx = ns;
			for (int i = 0; i < c.nrd; i++) {
				if (rm >> i & 1) k.r[k.nr++] = c.rd[i];
			}
			for (int i = 1; i < k.nr; i++) {
				for (int j = i; j > 0 && k.r[j - 1] > k.r[j]; j--) {
					int64_t t = k.r[j]; k.r[j] = k.r[j - 1]; k.r[j - 1] = t;
				}
			}
			run_case(&k);
		}}}}}
	}}}}}
}

int
main(int argc, char *argv[])
{
	return vd_main(argc, argv, enumerate);
}
