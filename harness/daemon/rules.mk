# E2: echsd.c embedded with real static libev (DESIGN.md section 2)
DAEMON_DEPS := $(wildcard $(H)/daemon/*.h $(H)/daemon/*.c) $(H)/vdrv.h
define DAEMONVAR
$(B)/$(1)/e2_%: $(H)/daemon/e2_%.c $(DAEMON_DEPS) $(B)/$(1)/libechse.a $(RDEPS)
	@mkdir -p $$(dir $$@)
	$(CC) $(CPPF) -I$(H)/daemon $$(CF_$(1)) $$< $(R)/logger.c $(B)/$(1)/libechse.a $(EVA) $(LDL) -ldl -o $$@
endef
$(eval $(call DAEMONVAR,plain))
$(eval $(call DAEMONVAR,asan))
E2DRV := $(basename $(notdir $(wildcard $(H)/daemon/e2_*.c)))
daemon: $(foreach v,plain asan,$(foreach d,$(E2DRV),$(B)/$(v)/$(d)))
