/* smoke test of the E2 seams: one task, tick, exit */
#include "hx.h"

static void
show(const char *tag)
{
	struct hx_task_s t[HX_MAXTASKS];
	int n = hx_observe(t);
	printf("[%s] now=+%.3f tasks=%d spawns=%d chld=%d dirty=%zu\n", tag, hx_now - HX_T0, n, hx_nspawns, hx_nchld, ichkpnts);
	for (int i = 0; i < n; i++) {
		printf("   %s owner=%u at=+%.3f active=%d rnull=%d nsim=%zu nocc=%d:", t[i].uid, t[i].owner, t[i].at - HX_T0, t[i].active, t[i].resched_null, t[i].nsim, t[i].nocc);
		for (int k = 0; k < t[i].nocc; k++) printf(" +%.0f", t[i].occ[k] - HX_T0);
		printf("\n");
	}
	for (int i = 0; i < HX_NFILES; i++) if (hx_files[i].live) printf("   file %s (%zu bytes) complete=%d\n", hx_files[i].name, hx_files[i].len, hx_complete_ical(hx_files[i].data, hx_files[i].len));
}

int
main(void)
{
	struct hx_reply_s rp;
	const char *add = "BEGIN:VCALENDAR\nVERSION:2.0\nMETHOD:PUBLISH\nBEGIN:VEVENT\nUID:A\nSUMMARY:true\nDTSTART:20300101T000002Z\nRRULE:FREQ=SECONDLY;INTERVAL=2;COUNT=3\nEND:VEVENT\nEND:VCALENDAR\n";
	hx_boot(0);
	show("boot");
	hx_request(&rp, 1000, add, strlen(add));
	printf("reply succ=%d fail=%d len=%zu\n", rp.nsucc, rp.nfail, rp.len);
	show("added");
	hx_tick(HX_T0 + 2.001);
	show("tick1");
	for (int i = 0; i < hx_nspawns; i++) printf("   spawn at=+%.3f pid=%d nd=%d uid=%s setuid=%u dur=%d ok=%d\n", hx_spawns[i].at - HX_T0, hx_spawns[i].pid, hx_spawns[i].nd, hx_spawns[i].uid, hx_spawns[i].setuid, hx_spawns[i].dur, hx_spawns[i].vtodo_ok);
	hx_exit_child(0, 0);
	show("exit1");
	hx_tick(HX_T0 + 6.5);
	show("tick-late");
	hx_steps_armed = 1;
	chkpnt();
	hx_steps_armed = 0;
	printf("steps: %s\n", hx_steplog);
	show("chkpt");
	const char *get = "GET /queue HTTP/1.1\r\n\r\n";
	hx_request(&rp, 1000, get, strlen(get));
	printf("http=%d len=%zu\n%s\n", rp.http, rp.len, rp.buf);
	hx_exit_child(0, 0);
	show("exit2");
	return 0;
}
