/* e2_chkpt.c -- C06: the checkpoint file is never torn; restart restores the last completed checkpoint.
 *
 * Histories of ADD / replace / CANCEL for two users, interleaved with CHKPT (the 60 s timer), LIST
 * (GET /queue forces a checkpoint) and SHUTDOWN, are explored on the embedded daemon (hx.h).  Inside
 * every checkpoint, for EVERY intercepted spool call k:
 *   crash    the spool as it is right before call k (and after the last call) is handed to a pristine
 *            daemon image which loads it the way a restart does (echsd_inject_queues)
 *   fail     call k returns -1 with EIO / ENOSPC / EMFILE, or writes only half (short write)
 * Oracle: every live echsq_<uid>.ics is a complete calendar at every boundary; the restarted daemon arms,
 * per user, exactly the tasks of that user's last completed checkpoint (or, from its rename on, the new
 * one), with their owner; after a clean SHUTDOWN exactly the current tasks; a failed call leaves the
 * daemon alive with its in-memory queue unchanged.
 *
 * --opt depth=N      commands before the checkpoint-bearing event
 * --opt mode=hist|many   many = the 17-user configuration (the "dump everybody" path)
 */
#include <ctype.h>
#include "vdrv.h"
#include "hx.h"
#include <sys/prctl.h>

/* ---------------- reload server: a pristine daemon image ---------------- */
static int rs_req[2], rs_rsp[2];

struct rs_task_s {
	char uid[64];
	unsigned owner;
	double at;
	unsigned maxsimul;
	int nocc;
};

static void
xwrite(int fd, const void *p, size_t n)
{
	const char *s = p;
	while (n) {
		ssize_t w = (ssize_t)syscall(SYS_write, (long)fd, (long)s, (long)n, 0L, 0L, 0L);
		if (w <= 0) _exit(9);
		s += w, n -= (size_t)w;
	}
}

static int
xread(int fd, void *p, size_t n)
{
	char *s = p;
	while (n) {
		ssize_t r = (ssize_t)syscall(SYS_read, (long)fd, (long)s, (long)n, 0L, 0L, 0L);
		if (r <= 0) return -1;
		s += r, n -= (size_t)r;
	}
	return 0;
}

#define RS_MAXFOLLOW	4
struct rs_follow_s {
	int kind;	/* 0 cancel, 1 add a small one-shot task */
	unsigned user;
	char uid[64];
};

static int
rs_observe(struct rs_task_s *out)
{
	struct hx_task_s obs[HX_MAXTASKS];
	int n = hx_observe(obs);
	for (int i = 0; i < n; i++) {
		memset(&out[i], 0, sizeof(out[i]));
		snprintf(out[i].uid, sizeof(out[i].uid), "%s", obs[i].uid);
		out[i].owner = obs[i].owner;
		out[i].at = obs[i].at;
		out[i].maxsimul = obs[i].maxsimul;
		out[i].nocc = obs[i].nocc;
	}
	return n;
}

static size_t
rs_mkreq(char *buf, size_t bsz, const struct rs_follow_s *f)
{
	if (f->kind == 0) {
		return (size_t)snprintf(buf, bsz, "BEGIN:VCALENDAR\nVERSION:2.0\nMETHOD:CANCEL\nBEGIN:VEVENT\nUID:%s\nEND:VEVENT\nEND:VCALENDAR\n", f->uid);
	}
	return (size_t)snprintf(buf, bsz, "BEGIN:VCALENDAR\nVERSION:2.0\nMETHOD:PUBLISH\nBEGIN:VEVENT\nUID:%s\nSUMMARY:job-%s\nDTSTART:20300101T000050Z\nEND:VEVENT\nEND:VCALENDAR\n", f->uid, f->uid);
}

static void
rs_serve(void)
{
	/* runs in the pristine image; must never outlive the explorer nor hold its stdout open */
	prctl(PR_SET_PDEATHSIG, SIGKILL);
	if (getppid() == 1) _exit(0);
	syscall(SYS_close, (long)rs_req[1], 0L, 0L, 0L, 0L, 0L);
	syscall(SYS_close, (long)rs_rsp[0], 0L, 0L, 0L, 0L, 0L);
	{
		int nul = open("/dev/null", O_RDWR);
		if (nul >= 0) {
			dup2(nul, 0), dup2(nul, 1);
		}
	}
	for (;;) {
		double now;
		int nf;
		if (xread(rs_req[0], &now, sizeof(now)) < 0) _exit(0);
		if (xread(rs_req[0], &nf, sizeof(nf)) < 0) _exit(0);
		/* read the image */
		static struct hx_file_s img[HX_NFILES];
		for (int i = 0; i < nf; i++) {
			xread(rs_req[0], img[i].name, sizeof(img[i].name));
			xread(rs_req[0], &img[i].len, sizeof(img[i].len));
			img[i].data = malloc(img[i].len + 1);
			xread(rs_req[0], img[i].data, img[i].len);
			img[i].live = 1;
		}
		/* second epoch: commands the restarted daemon is given, followed by a checkpoint (nfollow < 0: none) */
		int nfollow;
		struct rs_follow_s follow[RS_MAXFOLLOW];
		if (xread(rs_req[0], &nfollow, sizeof(nfollow)) < 0) _exit(0);
		if (nfollow > 0 && xread(rs_req[0], follow, sizeof(follow[0]) * (size_t)nfollow) < 0) _exit(0);
		pid_t c = fork();
		if (c == 0) {
			struct rs_task_s out[HX_MAXTASKS];
			int n;
			prctl(PR_SET_PDEATHSIG, SIGKILL);
			hx_now = now;
			memset(hx_files, 0, sizeof(hx_files));
			for (int i = 0; i < nf; i++) hx_files[i] = img[i];
			hx_boot(1);
			echsd_inject_queues(hx_ctx, HX_SPOOLPATH);
			n = rs_observe(out);
			xwrite(rs_rsp[1], &n, sizeof(n));
			xwrite(rs_rsp[1], out, sizeof(out[0]) * (size_t)n);
			if (nfollow >= 0) {
				int nf2 = 0, nrep[2] = {0, 0};
				for (int i = 0; i < nfollow; i++) {
					struct hx_reply_s rp;
					static char req[8192];
					size_t o = rs_mkreq(req, sizeof(req), &follow[i]);
					hx_request(&rp, follow[i].user, req, o);
					nrep[0] += rp.nsucc, nrep[1] += rp.nfail;
				}
				cptim_cb(hx_ctx->loop, NULL, 0);
				n = rs_observe(out);
				xwrite(rs_rsp[1], nrep, sizeof(nrep));
				xwrite(rs_rsp[1], &n, sizeof(n));
				xwrite(rs_rsp[1], out, sizeof(out[0]) * (size_t)n);
				for (int i = 0; i < HX_NFILES; i++) nf2 += hx_files[i].live;
				xwrite(rs_rsp[1], &nf2, sizeof(nf2));
				for (int i = 0; i < HX_NFILES; i++) {
					if (!hx_files[i].live) continue;
					xwrite(rs_rsp[1], hx_files[i].name, sizeof(hx_files[i].name));
					xwrite(rs_rsp[1], &hx_files[i].len, sizeof(hx_files[i].len));
					xwrite(rs_rsp[1], hx_files[i].data, hx_files[i].len);
				}
			}
			_exit(0);
		}
		int st;
		while (waitpid(c, &st, 0) < 0 && errno == EINTR);
		if (!(WIFEXITED(st) && WEXITSTATUS(st) == 0)) {
			/* the restarted daemon died loading the spool (or later: the explorer reads a -1
			 * wherever it expects the next count; replies are written whole or not at all
			 * up to the pipe capacity, the explorer treats a short second part as death too) */
			int n = -1;
			xwrite(rs_rsp[1], &n, sizeof(n));
		} else {
			int n = -2;	/* end-of-reply marker */
			xwrite(rs_rsp[1], &n, sizeof(n));
		}
		for (int i = 0; i < nf; i++) free(img[i].data);
	}
}

/* load the spool image FILES into a pristine daemon; returns #tasks or -1 if it died */
struct rs_epoch2_s {
	int nrep[2];			/* success / failure replies to the follow-up commands */
	int n;				/* tasks in memory after follow-up + checkpoint */
	struct rs_task_s t[HX_MAXTASKS];
	struct hx_file_s files[HX_NFILES];	/* the spool after the checkpoint (data malloc'd) */
};

/* returns #tasks after the restart, -1 if the restarted daemon died loading, -3 if it died in the second epoch */
static int
rs_reload2(const struct hx_file_s *files, struct rs_task_s *out, const struct rs_follow_s *follow, int nfollow, struct rs_epoch2_s *e2)
{
	int nf = 0, n, mark;
	for (int i = 0; i < HX_NFILES; i++) nf += files[i].live;
	xwrite(rs_req[1], &hx_now, sizeof(hx_now));
	xwrite(rs_req[1], &nf, sizeof(nf));
	for (int i = 0; i < HX_NFILES; i++) {
		if (!files[i].live) continue;
		xwrite(rs_req[1], files[i].name, sizeof(files[i].name));
		xwrite(rs_req[1], &files[i].len, sizeof(files[i].len));
		xwrite(rs_req[1], files[i].data, files[i].len);
	}
	xwrite(rs_req[1], &nfollow, sizeof(nfollow));
	if (nfollow > 0) xwrite(rs_req[1], follow, sizeof(follow[0]) * (size_t)nfollow);
	if (xread(rs_rsp[0], &n, sizeof(n)) < 0) _exit(9);
	if (n < 0) {
		return -1;
	}
	if (n > 0 && xread(rs_rsp[0], out, sizeof(out[0]) * (size_t)n) < 0) _exit(9);
	if (nfollow >= 0) {
		int nf2;
		memset(e2, 0, sizeof(*e2));
		if (xread(rs_rsp[0], e2->nrep, sizeof(int)) < 0) _exit(9);
		if (e2->nrep[0] == -1) {
			/* died before the second part was written */
			return -3;
		}
		if (xread(rs_rsp[0], &e2->nrep[1], sizeof(int)) < 0) _exit(9);
		if (xread(rs_rsp[0], &e2->n, sizeof(e2->n)) < 0) _exit(9);
		if (e2->n > 0 && xread(rs_rsp[0], e2->t, sizeof(e2->t[0]) * (size_t)e2->n) < 0) _exit(9);
		if (xread(rs_rsp[0], &nf2, sizeof(nf2)) < 0) _exit(9);
		for (int i = 0; i < nf2 && i < HX_NFILES; i++) {
			xread(rs_rsp[0], e2->files[i].name, sizeof(e2->files[i].name));
			xread(rs_rsp[0], &e2->files[i].len, sizeof(e2->files[i].len));
			e2->files[i].data = malloc(e2->files[i].len + 1);
			xread(rs_rsp[0], e2->files[i].data, e2->files[i].len);
			e2->files[i].live = 1;
		}
	}
	if (xread(rs_rsp[0], &mark, sizeof(mark)) < 0) _exit(9);
	if (mark != -2) {
		return nfollow >= 0 ? -3 : -1;
	}
	return n;
}

static int
rs_reload(const struct hx_file_s *files, struct rs_task_s *out)
{
	return rs_reload2(files, out, NULL, -1, NULL);
}

/* ---------------- model ---------------- */
#define NU	2
#define NUID	2
static const unsigned users[NU] = {1000, 1001};
static const char *const uids[NUID] = {"A", "B"};

struct tpl_s {
	const char *name;
	int big;
	int first;	/* first occurrence, seconds after T0 */
};
static const struct tpl_s tpls[] = {
	{"oneshot+20", 0, 20},
	{"sec5x3+30", 0, 30},
	{"big+40", 1, 40},
};
#define NTPL 3

struct mt_s {
	int present;
	unsigned owner;
	int tpl;
};
struct model_s {
	struct mt_s cur[NUID];		/* the queue by UID */
	struct mt_s ckpt[NU][NUID];	/* per user: tasks of the last completed checkpoint */
	int has_ckpt[NU];		/* a checkpoint file of that user exists */
	int dirty[NU];
	int everdirty[NU];
};
static struct model_s M;
static char hist[900];
static int maxdepth = 2;
static int pruned;

#define VT_BITS	18
#define VT_SIZE	(1UL << VT_BITS)
struct vt_s {
	uint64_t key[VT_SIZE];
	uint8_t dl[VT_SIZE];
	long states, transitions, traces, crashpoints, faults, reloads, epoch2;
	uint64_t af_seen[1024];	/* post-fault images judged in the current checkpoint-bearing event */
	long nscratch_steps;
};
static struct vt_s *VT;

static int
uidx(unsigned u)
{
	return u == users[0] ? 0 : 1;
}

static void
report(const char *clause, const char *shape, const char *fmt, ...)
{
	char sig[200], msg[1200];
	va_list ap;
	va_start(ap, fmt);
	vsnprintf(msg, sizeof(msg), fmt, ap);
	va_end(ap);
	snprintf(sig, sizeof(sig), "%s/%s", clause, shape);
	vd_desc("%s", hist);
	vd_viol(sig, "%s", msg);
	pruned = 1;
}

/* ---------------- events ---------------- */
enum {E_ADD, E_CANCEL, E_CHKPT, E_LIST, E_SHUTDOWN, E_CANCEL2, E_ADD2, E_ADDNAME};
struct ev_s {
	int kind, user, uid, tpl;
};

static const char*
evname(char *b, size_t z, const struct ev_s *e)
{
	switch (e->kind) {
	case E_ADD: snprintf(b, z, "ADD(%u,%s,%s)", users[e->user], uids[e->uid], tpls[e->tpl].name); break;
	case E_CANCEL: snprintf(b, z, "CANCEL(%u,%s)", users[e->user], uids[e->uid]); break;
	case E_CHKPT: snprintf(b, z, "CHKPT"); break;
	case E_LIST: snprintf(b, z, "LIST(%u)", users[e->user]); break;
	case E_SHUTDOWN: snprintf(b, z, "SHUTDOWN"); break;
	case E_CANCEL2: snprintf(b, z, "CANCEL(%u,%s+nonexistent)", users[e->user], uids[e->uid]); break;
	case E_ADD2: snprintf(b, z, "ADD(%u,%s,%s)+ADD(of a foreign-owned field)", users[e->user], uids[e->uid], tpls[e->tpl].name); break;
	case E_ADDNAME: snprintf(b, z, "ADD(%u,%s,%s,X-ECHS-OWNER:%s)", users[e->user], uids[e->uid], tpls[e->tpl].name, e->user ? "bob" : "alice"); break;
	}
	return b;
}

static int
enabled(struct ev_s *ev)
{
	int n = 0;
	for (int u = 0; u < NU; u++) {
		for (int k = 0; k < NUID; k++) {
			for (int t = 0; t < NTPL; t++) ev[n++] = (struct ev_s){E_ADD, u, k, t};
			if (M.cur[k].present && M.cur[k].owner == users[u]) {
				ev[n++] = (struct ev_s){E_CANCEL, u, k, 0};
				/* one request, two instructions: the first succeeds, the last is refused */
				ev[n++] = (struct ev_s){E_CANCEL2, u, k, 0};
			}
			if (k == 0) ev[n++] = (struct ev_s){E_ADD2, u, k, 0};
			/* the owner spelled out as the submitter's login name */
			if (k == 1) ev[n++] = (struct ev_s){E_ADDNAME, u, k, 0};
		}
	}
	return n;
}

static size_t
mk_add(char *buf, size_t bsz, const char *uid, const struct tpl_s *tp)
{
	size_t o = (size_t)snprintf(buf, bsz, "BEGIN:VCALENDAR\nVERSION:2.0\nMETHOD:PUBLISH\nBEGIN:VEVENT\nUID:%s\n", uid);
	if (tp->big) {
		static char pad[901];
		if (!pad[0]) memset(pad, 'x', 900);
		o += (size_t)snprintf(buf + o, bsz - o, "SUMMARY:echo %s\nX-ECHS-IFILE:/i%s\nX-ECHS-OFILE:/o%s\nX-ECHS-EFILE:/e%s\nDESCRIPTION:%s\n", pad, pad, pad, pad, pad);
		o += (size_t)snprintf(buf + o, bsz - o, "DTSTART:20300101T000040Z\n");
	} else if (tp->first == 20) {
		o += (size_t)snprintf(buf + o, bsz - o, "SUMMARY:job-%s\nDTSTART:20300101T000020Z\n", uid);
	} else {
		o += (size_t)snprintf(buf + o, bsz - o, "SUMMARY:job-%s\nDTSTART:20300101T000030Z\nRRULE:FREQ=SECONDLY;INTERVAL=5;COUNT=3\n", uid);
	}
	o += (size_t)snprintf(buf + o, bsz - o, "END:VEVENT\nEND:VCALENDAR\n");
	return o;
}

/* ---------------- oracle pieces ---------------- */
static int
in_memory_matches_model(char *why, size_t wz)
{
	struct hx_task_s obs[HX_MAXTASKS];
	int n = hx_observe(obs), want = 0;
	for (int k = 0; k < NUID; k++) {
		struct hx_task_s *o = NULL;
		want += M.cur[k].present;
		for (int j = 0; j < n; j++) if (!strcmp(obs[j].uid, uids[k])) o = &obs[j];
		if (M.cur[k].present != (o != NULL)) {
			snprintf(why, wz, "task %s %s in the daemon's table", uids[k], o ? "unexpectedly is" : "is no longer");
			return 0;
		}
		if (o && (o->owner != M.cur[k].owner || o->at != HX_T0 + tpls[M.cur[k].tpl].first)) {
			snprintf(why, wz, "task %s owner %u armed +%.0f, expected owner %u armed +%d", uids[k], o->owner, o->at - HX_T0, M.cur[k].owner, tpls[M.cur[k].tpl].first);
			return 0;
		}
	}
	if (n != want) {
		snprintf(why, wz, "%d tasks in the table, expected %d", n, want);
		return 0;
	}
	return 1;
}

/* does the reloaded set RS (n tasks) show, for user U, exactly the tasks SET? */
static int
reload_shows(const struct rs_task_s *rs, int n, unsigned u, const struct mt_s *set, char *why, size_t wz)
{
	for (int k = 0; k < NUID; k++) {
		const struct rs_task_s *o = NULL;
		int want = set[k].present && set[k].owner == u;
		for (int j = 0; j < n; j++) if (!strcmp(rs[j].uid, uids[k]) && rs[j].owner == u) o = &rs[j];
		if (want != (o != NULL)) {
			snprintf(why, wz, "%s of user %u %s after restart", uids[k], u, o ? "is scheduled" : "is missing");
			return 0;
		}
		if (o && o->at != HX_T0 + tpls[set[k].tpl].first) {
			snprintf(why, wz, "%s of user %u armed for +%.0f after restart, expected +%d", uids[k], u, o->at - HX_T0, tpls[set[k].tpl].first);
			return 0;
		}
	}
	return 1;
}

/* judge one spool image.  renamed[u]: user u's new file is in place; must_be_new: every user must show the current queue */
static int with_epoch2;	/* set around the judgements of crash points */
static void judge_epoch2(const struct hx_file_s *files, const char *when, const char *evk, const struct rs_task_s *rs, int n);

static void
judge_image(const struct hx_file_s *files, const char *when, const int *renamed, int must_be_new, const char *evk)
{
	struct rs_task_s rs[HX_MAXTASKS];
	char why[200], shape[120];
	int n;

	/* (1) live files are complete */
	for (int i = 0; i < HX_NFILES; i++) {
		if (!files[i].live || strncmp(files[i].name, "echsq_", 6)) continue;
		if (!hx_complete_ical(files[i].data, files[i].len)) {
			snprintf(shape, sizeof(shape), "%s/%s", evk, when);
			report("torn-live", shape, "%s: live file %s (%zu bytes) is not a complete calendar", when, files[i].name, files[i].len);
			return;
		}
	}
	/* (2) what a restart makes of it */
	VT->reloads++;
	n = rs_reload(files, rs);
	if (n < 0) {
		snprintf(shape, sizeof(shape), "%s/%s", evk, when);
		report("reload-died", shape, "%s: a daemon started on this spool dies while loading it", when);
		return;
	}
	for (int j = 0; j < n; j++) {
		int known = 0;
		for (int k = 0; k < NUID; k++) known |= !strcmp(rs[j].uid, uids[k]);
		if (!known || (rs[j].owner != users[0] && rs[j].owner != users[1])) {
			snprintf(shape, sizeof(shape), "%s/%s", evk, when);
			report("reload-alien", shape, "%s: restart schedules %s for owner %u", when, rs[j].uid, rs[j].owner);
			return;
		}
	}
	for (int u = 0; u < NU; u++) {
		char why2[200];
		int old_ok = reload_shows(rs, n, users[u], M.ckpt[u], why, sizeof(why));
		int new_ok = reload_shows(rs, n, users[u], M.cur, why2, sizeof(why2));
		if (must_be_new || (renamed && renamed[u])) {
			if (!new_ok) {
				snprintf(shape, sizeof(shape), "%s/%s/%s", evk, when, must_be_new ? "acknowledged-change-lost" : "after-rename-not-new");
				report("reload-set", shape, "%s: user %u: %s (current queue expected)", when, users[u], why2);
				return;
			}
		} else if (!old_ok && !new_ok) {
			snprintf(shape, sizeof(shape), "%s/%s/neither-old-nor-new", evk, when);
			report("reload-set", shape, "%s: user %u: %s (last completed checkpoint expected; vs current queue: %s)", when, users[u], why, why2);
			return;
		}
	}
	if (with_epoch2) {
		judge_epoch2(files, when, evk, rs, n);
	}
}

/* second epoch: the daemon restarted on this spool is given one more command and checkpoints again.
 * Differential oracle: RS is what the restart scheduled; the command's effect on RS is what memory, the
 * files and a further restart must show, and every live queue file must be one complete calendar. */
static int epoch2 = 1;
static uint64_t e2_seen[64];
static int ne2_seen;

static int
e2_same_set(const struct rs_task_s *a, int na, const struct rs_task_s *b, int nb, char *why, size_t wz)
{
	for (int i = 0; i < na; i++) {
		int f = 0;
		for (int j = 0; j < nb; j++) f |= !strcmp(a[i].uid, b[j].uid) && a[i].owner == b[j].owner && a[i].at == b[j].at;
		if (!f) {
			snprintf(why, wz, "%s of user %u (armed +%.0f) is missing", a[i].uid, a[i].owner, a[i].at - HX_T0);
			return 0;
		}
	}
	for (int j = 0; j < nb; j++) {
		int f = 0;
		for (int i = 0; i < na; i++) f |= !strcmp(a[i].uid, b[j].uid) && a[i].owner == b[j].owner && a[i].at == b[j].at;
		if (!f) {
			snprintf(why, wz, "%s of user %u (armed +%.0f) is there but should not be", b[j].uid, b[j].owner, b[j].at - HX_T0);
			return 0;
		}
	}
	return 1;
}

static void
judge_epoch2(const struct hx_file_s *files, const char *when, const char *evk, const struct rs_task_s *rs, int n)
{
	static struct rs_epoch2_s e2;
	struct rs_task_s tmp[HX_MAXTASKS], want[HX_MAXTASKS], rs3[HX_MAXTASKS];
	char shape[160], why[200];
	uint64_t h = 14695981039346656037ULL;

	if (!epoch2 || pruned) return;
	/* the same image within one checkpoint-bearing event is judged once */
	for (int i = 0; i < HX_NFILES; i++) {
		if (!files[i].live) continue;
		h = hx_hash(h, files[i].name, strlen(files[i].name) + 1);
		h = hx_hash(h, files[i].data, files[i].len);
	}
	for (int i = 0; i < ne2_seen; i++) if (e2_seen[i] == h) return;
	if (ne2_seen < 64) e2_seen[ne2_seen++] = h;

	for (int j = 0; j < n && !pruned; j++) {
		for (int kind = 0; kind < 2 && !pruned; kind++) {
			struct rs_follow_s f;
			int nw = 0, n1, n3;
			memset(&f, 0, sizeof(f));
			f.kind = kind, f.user = rs[j].owner;
			snprintf(f.uid, sizeof(f.uid), "%s", rs[j].uid);
			for (int q = 0; q < n; q++) {
				if (q == j && kind == 0) continue;
				want[nw] = rs[q];
				if (q == j) want[nw].at = HX_T0 + 50;
				nw++;
			}
			VT->reloads++;
			VT->epoch2++;
			n1 = rs_reload2(files, tmp, &f, 1, &e2);
			snprintf(shape, sizeof(shape), "%s/%s/then-%s", evk, when, kind ? "replace-by-small" : "cancel");
			if (n1 == -3) {
				report("epoch2-died", shape, "%s: the daemon restarted on this spool dies when it is given %s(%u,%s) and checkpoints", when, kind ? "ADD" : "CANCEL", f.user, f.uid);
				break;
			} else if (n1 < 0) {
				break;
			}
			if (e2.nrep[0] != 1 || e2.nrep[1] != 0) {
				report("epoch2-reply", shape, "%s: restarted daemon answers %s(%u,%s) with %d success / %d failure replies", when, kind ? "ADD" : "CANCEL", f.user, f.uid, e2.nrep[0], e2.nrep[1]);
			} else if (!e2_same_set(want, nw, e2.t, e2.n, why, sizeof(why))) {
				report("epoch2-memory", shape, "%s: after restart and %s(%u,%s): %s", when, kind ? "ADD" : "CANCEL", f.user, f.uid, why);
			}
			for (int i = 0; i < HX_NFILES && !pruned; i++) {
				if (!e2.files[i].live || strncmp(e2.files[i].name, "echsq_", 6)) continue;
				if (!hx_complete_ical(e2.files[i].data, e2.files[i].len)) {
					report("torn-live", shape, "%s: after restart, %s(%u,%s) and a completed checkpoint the live file %s (%zu bytes) is not one complete calendar",
					       when, kind ? "ADD" : "CANCEL", f.user, f.uid, e2.files[i].name, e2.files[i].len);
				}
			}
			if (!pruned) {
				VT->reloads++;
				n3 = rs_reload(e2.files, rs3);
				if (n3 < 0) {
					report("reload-died", shape, "%s: after restart, %s(%u,%s) and a completed checkpoint a further restart dies loading the spool", when, kind ? "ADD" : "CANCEL", f.user, f.uid);
				} else if (!e2_same_set(want, nw, rs3, n3, why, sizeof(why))) {
					report("reload-set", shape, "%s: after restart, %s(%u,%s) and a completed checkpoint a further restart: %s", when, kind ? "ADD" : "CANCEL", f.user, f.uid, why);
				}
			}
			for (int i = 0; i < HX_NFILES; i++) {
				if (e2.files[i].live) free(e2.files[i].data);
			}
		}
	}
}

/* snapshots taken by the step hook */
#define MAXSNAP	40
static struct {
	struct hx_file_s files[HX_NFILES];
	char what[24];
	char target[40];
	int renamed[NU];
} *snaps;
static int nsnaps;
static int cur_renamed[NU];

static void
snap_copy(struct hx_file_s *dst)
{
	memcpy(dst, hx_files, sizeof(hx_files));
	for (int i = 0; i < HX_NFILES; i++) {
		if (dst[i].live && dst[i].len) {
			dst[i].data = malloc(dst[i].len);
			memcpy(dst[i].data, hx_files[i].data, dst[i].len);
		}
	}
}

static void
step_hook(long step, const char *what, const char *name)
{
	(void)step;
	if (nsnaps < MAXSNAP) {
		snap_copy(snaps[nsnaps].files);
		snprintf(snaps[nsnaps].what, sizeof(snaps[nsnaps].what), "%s", what);
		snprintf(snaps[nsnaps].target, sizeof(snaps[nsnaps].target), "%s", name ? name : "");
		memcpy(snaps[nsnaps].renamed, cur_renamed, sizeof(cur_renamed));
		nsnaps++;
	}
	/* after this call (a rename), the user's new file is live */
	if (!strcmp(what, "rename") && name) {
		unsigned u = 0;
		if (sscanf(name, "echsq_%u.ics", &u) == 1) {
			if (u == users[0] || u == users[1]) cur_renamed[uidx(u)] = 1;
		}
	}
}

/* what the checkpoint-bearing event does, without touching the model */
static void
do_ckpt_event(const struct ev_s *e, struct hx_reply_s *rp)
{
	switch (e->kind) {
	case E_CHKPT:
		cptim_cb(hx_ctx->loop, NULL, 0);
		break;
	case E_LIST: {
		const char *get = "GET /queue HTTP/1.1\r\n\r\n";
		hx_request(rp, users[e->user], get, strlen(get));
		break;
	}
	case E_SHUTDOWN:
		/* free_echsd() begins with the final checkpoint; that is all that matters here */
		chkpnt();
		break;
	}
}

/* which users does this event checkpoint, per the model */
static void
model_ckpt_users(const struct ev_s *e, int *who)
{
	for (int u = 0; u < NU; u++) who[u] = 0;
	if (e->kind == E_LIST && !M.everdirty[e->user]) {
		return;
	}
	for (int u = 0; u < NU; u++) who[u] = M.dirty[u];
}

static const char*
evk(const struct ev_s *e)
{
	static const char *const k[] = {"ADD", "CANCEL", "CHKPT", "LIST", "SHUTDOWN", "CANCEL2", "ADD2", "ADDNAME"};
	return k[e->kind];
}

/* second epoch after an injected fault: the same daemon is given one more command (CANCEL by the owner, or a
 * replacement by a small task, for each task queued) and then checkpoints undisturbed.  The command must be
 * acknowledged, every live queue file must be one complete calendar, and a restart must show that user's
 * current queue (what a failed checkpoint leaves behind must not leak into the next one).  Each distinct
 * (spool image, queue) pair of a checkpoint-bearing event is judged once. */
static void
after_fault(const struct ev_s *e, const char *when)
{
	uint64_t h = 14695981039346656037ULL;
	char shape[160], why[200];

	for (int i = 0; i < HX_NFILES; i++) {
		if (!hx_files[i].live) continue;
		h = hx_hash(h, hx_files[i].name, strlen(hx_files[i].name) + 1);
		h = hx_hash(h, hx_files[i].data, hx_files[i].len);
	}
	h = hx_hash(h, M.cur, sizeof(M.cur));
	h = h ? h : 1;
	for (int i = 0; i < 1024; i++) {
		size_t q = (size_t)((h + (uint64_t)i) & 1023);
		if (VT->af_seen[q] == h) return;
		if (VT->af_seen[q] == 0) { VT->af_seen[q] = h; break; }
	}
	/* no further command at all: the daemon is shut down cleanly; its final checkpoint runs undisturbed and must
	 * bring every acknowledged change to the spool, also those whose checkpoint failed before */
	{
		pid_t c;
		int st;
		fflush(stdout);
		if ((c = fork()) == 0) {
			struct hx_reply_s rp;
			static struct rs_task_s rs[HX_MAXTASKS];
			struct ev_s ck = {E_SHUTDOWN, 0, 0, 0};
			int n;
			prctl(PR_SET_PDEATHSIG, SIGKILL);
			hx_steps_armed = 0, hx_fail_at = -1, hx_step_hook = NULL;
			snprintf(shape, sizeof(shape), "%s/%s/then-clean-shutdown", evk(e), when);
			VT->epoch2++;
			do_ckpt_event(&ck, &rp);
			for (int i = 0; i < HX_NFILES; i++) {
				if (!hx_files[i].live || strncmp(hx_files[i].name, "echsq_", 6)) continue;
				if (!hx_complete_ical(hx_files[i].data, hx_files[i].len)) {
					report("torn-live", shape, "%s: after a clean shutdown the live file %s (%zu bytes) is not one complete calendar", when, hx_files[i].name, hx_files[i].len);
					_exit(0);
				}
			}
			VT->reloads++;
			n = rs_reload(hx_files, rs);
			if (n < 0) {
				report("reload-died", shape, "%s: after a clean shutdown a restart dies loading the spool", when);
				_exit(0);
			}
			for (int q = 0; q < NUID; q++) {
				int have = 0;
				for (int j = 0; j < n; j++) have += !strcmp(rs[j].uid, uids[q]) && (!M.cur[q].present || rs[j].owner == M.cur[q].owner);
				if (have != (M.cur[q].present != 0)) {
					snprintf(why, sizeof(why), "%s %s after restart", uids[q], have ? "is scheduled although it was cancelled (acknowledged)" : "is missing although it was accepted");
					report("reload-set", shape, "%s, then a clean shutdown: %s", when, why);
					_exit(0);
				}
			}
			fflush(stdout);
			_exit(0);
		}
		while (waitpid(c, &st, 0) < 0 && errno == EINTR);
		if (!(WIFEXITED(st) && WEXITSTATUS(st) == 0)) {
			snprintf(shape, sizeof(shape), "%s/%s/then-clean-shutdown", evk(e), when);
			report("epoch2-died", shape, "%s: the daemon dies (status %#x) in the clean shutdown that follows", when, st);
			return;
		}
	}
	for (int k = 0; k < NUID; k++) {
		if (!M.cur[k].present) continue;
		for (int kind = 0; kind < 2; kind++) {
			pid_t c;
			int st;
			fflush(stdout);
			if ((c = fork()) == 0) {
				struct hx_reply_s rp;
				struct rs_task_s rs[HX_MAXTASKS];
				struct rs_follow_s f;
				static char req[8192];
				const unsigned u = M.cur[k].owner;
				struct ev_s ck = {E_CHKPT, 0, 0, 0};
				struct mt_s want[NUID];
				int n;
				size_t o;
				prctl(PR_SET_PDEATHSIG, SIGKILL);
				memset(&f, 0, sizeof(f));
				f.kind = kind, f.user = u;
				snprintf(f.uid, sizeof(f.uid), "%s", uids[k]);
				o = rs_mkreq(req, sizeof(req), &f);
				hx_steps_armed = 0, hx_fail_at = -1, hx_step_hook = NULL;
				hx_request(&rp, u, req, o);
				snprintf(shape, sizeof(shape), "%s/%s/then-%s", evk(e), when, kind ? "replace-by-small" : "cancel");
				VT->epoch2++;
				if (rp.nsucc != 1 || rp.nfail != 0) {
					report("epoch2-reply", shape, "%s: afterwards %s(%u,%s) gets %d success / %d failure replies", when, kind ? "ADD" : "CANCEL", u, uids[k], rp.nsucc, rp.nfail);
					_exit(0);
				}
				do_ckpt_event(&ck, &rp);
				for (int i = 0; i < HX_NFILES; i++) {
					if (!hx_files[i].live || strncmp(hx_files[i].name, "echsq_", 6)) continue;
					if (!hx_complete_ical(hx_files[i].data, hx_files[i].len)) {
						report("torn-live", shape, "%s: after %s(%u,%s) and an undisturbed checkpoint the live file %s (%zu bytes) is not one complete calendar",
						       when, kind ? "ADD" : "CANCEL", u, uids[k], hx_files[i].name, hx_files[i].len);
						_exit(0);
					}
				}
				memcpy(want, M.cur, sizeof(want));
				if (kind == 0) {
					want[k].present = 0;
				}
				VT->reloads++;
				n = rs_reload(hx_files, rs);
				if (n < 0) {
					report("reload-died", shape, "%s: after %s(%u,%s) and an undisturbed checkpoint a restart dies loading the spool", when, kind ? "ADD" : "CANCEL", u, uids[k]);
					_exit(0);
				}
				/* the commanding user's file is current: exactly its tasks, the replaced one armed for +50 */
				for (int q = 0; q < NUID; q++) {
					const struct rs_task_s *ob = NULL;
					const int w = want[q].present && want[q].owner == u;
					int contested = 0;
					for (int j = 0; j < n; j++) if (!strcmp(rs[j].uid, uids[q]) && rs[j].owner == u) ob = &rs[j];
					/* the failed checkpoint may have left ANOTHER user's file at its last completed state; if that
					 * state holds the same UID the two files contradict each other at restart and the property
					 * (per user: the last completed checkpoint) does not say who wins */
					for (int ou = 0; ou < NU; ou++) {
						contested |= users[ou] != u && M.ckpt[ou][q].present && M.ckpt[ou][q].owner == users[ou];
					}
					if (contested) continue;
					if (w != (ob != NULL)) {
						snprintf(why, sizeof(why), "%s of user %u %s after restart", uids[q], u, ob ? "is scheduled" : "is missing");
						report("reload-set", shape, "%s: after %s(%u,%s) and an undisturbed checkpoint: %s", when, kind ? "ADD" : "CANCEL", u, uids[k], why);
						_exit(0);
					}
					if (ob && ob->at != (q == k && kind == 1 ? HX_T0 + 50 : HX_T0 + tpls[want[q].tpl].first)) {
						report("reload-set", shape, "%s: after %s(%u,%s) and an undisturbed checkpoint: %s of user %u armed for +%.0f after restart", when, kind ? "ADD" : "CANCEL", u, uids[k], uids[q], u, ob->at - HX_T0);
						_exit(0);
					}
				}
				fflush(stdout);
				_exit(0);
			}
			while (waitpid(c, &st, 0) < 0 && errno == EINTR);
			if (!(WIFEXITED(st) && WEXITSTATUS(st) == 0)) {
				snprintf(shape, sizeof(shape), "%s/%s/then-%s", evk(e), when, kind ? "replace-by-small" : "cancel");
				report("epoch2-died", shape, "%s: the daemon dies (status %#x) when it is afterwards given %s(%u,%s) and checkpoints", when, st, kind ? "ADD" : "CANCEL", M.cur[k].owner, uids[k]);
				return;
			}
		}
	}
}

/* the fault / crash enumeration inside one checkpoint-bearing event; runs in a forked image per variant */
static void
checkpoint_event(const struct ev_s *e)
{
	char name[96], shape[120], why[200];
	int who[NU];
	long nsteps = 0;
	pid_t c;
	int st;

	evname(name, sizeof(name), e);
	snprintf(hist + strlen(hist), sizeof(hist) - strlen(hist), "%s%s", hist[0] ? " " : "", name);
	vd_desc("%s", hist);
	model_ckpt_users(e, who);
	memset(VT->af_seen, 0, sizeof(VT->af_seen));

	/* (a) the undisturbed run, with a snapshot before every spool call and one at the end */
	VT->nscratch_steps = -1;
	fflush(stdout);
	if ((c = fork()) == 0) {
		struct hx_reply_s rp;
		prctl(PR_SET_PDEATHSIG, SIGKILL);
		snaps = calloc(MAXSNAP, sizeof(*snaps));
		nsnaps = 0;
		memset(cur_renamed, 0, sizeof(cur_renamed));
		hx_step = 0, hx_fail_at = -1, hx_steplog_n = 0, hx_steplog[0] = '\0';
		hx_step_hook = step_hook;
		hx_steps_armed = 1;
		do_ckpt_event(e, &rp);
		hx_steps_armed = 0;
		VT->nscratch_steps = hx_step;
		/* crash points: the spool right before each call */
		ne2_seen = 0;
		with_epoch2 = 1;
		for (int i = 0; i < nsnaps && !pruned; i++) {
			char when[80];
			snprintf(when, sizeof(when), "crash-before-%s", snaps[i].what);
			VT->crashpoints++;
			judge_image(snaps[i].files, when, snaps[i].renamed, 0, evk(e));
		}
		/* the final state: completed checkpoints must show the current queue */
		if (!pruned) {
			/* users whose file was renamed must show their current queue; after SHUTDOWN everybody must */
			VT->crashpoints++;
			judge_image(hx_files, "completed", cur_renamed, e->kind == E_SHUTDOWN, evk(e));
		}
		with_epoch2 = 0;
		if (!pruned && !in_memory_matches_model(why, sizeof(why))) {
			report("memory-changed", evk(e), "after an undisturbed %s: %s", name, why);
		}
		if (!pruned && e->kind == E_LIST) {
			/* the listing shows the caller's current queue */
			for (int k = 0; k < NUID; k++) {
				char pat[24];
				snprintf(pat, sizeof(pat), "\nUID:%s\n", uids[k]);
				int listed = strstr(rp.buf, pat) != NULL;
				int want = M.cur[k].present && M.cur[k].owner == users[e->user];
				if (listed != want) {
					snprintf(shape, sizeof(shape), "%s", listed ? "stale-or-foreign" : "missing");
					report("list-content", shape, "GET /queue by %u (http %d): %s is %s", users[e->user], rp.http, uids[k], listed ? "listed" : "not listed");
				}
			}
		}
		fflush(stdout);
		_exit(pruned ? 3 : 0);
	}
	while (waitpid(c, &st, 0) < 0 && errno == EINTR);
	if (!WIFEXITED(st) || (WEXITSTATUS(st) != 0 && WEXITSTATUS(st) != 3)) {
		report("crash", evk(e), "daemon image died during an undisturbed %s (status %#x)", name, st);
		return;
	}
	nsteps = VT->nscratch_steps;
	VT->transitions++;

	/* (b) every single failing call */
	static const struct {
		const char *name;
		int err;
		int shortw;
	} faults[] = {{"EIO", EIO, 0}, {"ENOSPC", ENOSPC, 0}, {"EMFILE", EMFILE, 0}, {"short-write", 0, 1}, {"EINTR", EINTR, 0}};
	for (long k = 0; k < nsteps; k++) {
		for (size_t f = 0; f < sizeof(faults) / sizeof(*faults); f++) {
			vd_beat();
			fflush(stdout);
			if ((c = fork()) == 0) {
				struct hx_reply_s rp;
				char when[96];
				const char *what = "?";
				prctl(PR_SET_PDEATHSIG, SIGKILL);
				hx_step = 0, hx_steplog_n = 0, hx_steplog[0] = '\0';
				hx_fail_at = k, hx_fail_errno = faults[f].err, hx_fail_short = faults[f].shortw;
				hx_step_hook = NULL;
				hx_steps_armed = 1;
				do_ckpt_event(e, &rp);
				hx_steps_armed = 0;
				/* name of the failing step */
				{
					static char tmp[1024];
					char *tok, *sv;
					long i = 0;
					snprintf(tmp, sizeof(tmp), "%s", hx_steplog);
					for (tok = strtok_r(tmp, " ", &sv); tok; tok = strtok_r(NULL, " ", &sv), i++) {
						if (i == k) { what = tok; break; }
					}
				}
				if (faults[f].shortw && strcmp(what, "write-short")) {
					/* short writes only make sense on writes */
					_exit(0);
				}
				VT->faults++;
				snprintf(when, sizeof(when), "%s-fails-%s", what, faults[f].name);
				if (!in_memory_matches_model(why, sizeof(why))) {
					report("memory-changed", when, "%s: %s", when, why);
				}
				if (!pruned) {
					/* the spool must still be one of {old, new} per user, never torn */
					judge_image(hx_files, when, NULL, 0, evk(e));
				}
				if (!pruned && epoch2 && e->kind != E_SHUTDOWN) {
					/* the daemon lives on: one more command, then an undisturbed checkpoint */
					after_fault(e, when);
				}
				fflush(stdout);
				_exit(0);
			}
			while (waitpid(c, &st, 0) < 0 && errno == EINTR);
			if (!(WIFEXITED(st) && WEXITSTATUS(st) == 0)) {
				snprintf(shape, sizeof(shape), "%s/step%ld-%s", evk(e), k, faults[f].name);
				report("fail-died", shape, "daemon image died (status %#x) when spool call %ld of %s failed with %s", st, k, name, faults[f].name);
				pruned = 0;
			}
		}
	}
	VT->traces++;
}

/* ---------------- commands ---------------- */
static void
apply_cmd(const struct ev_s *e)
{
	char name[96], req[8192], shape[64];
	struct hx_reply_s rp;
	const unsigned u = users[e->user];

	evname(name, sizeof(name), e);
	snprintf(hist + strlen(hist), sizeof(hist) - strlen(hist), "%s%s", hist[0] ? " " : "", name);
	vd_desc("%s", hist);
	if (e->kind == E_ADD || e->kind == E_ADDNAME) {
		size_t o = mk_add(req, sizeof(req), uids[e->uid], &tpls[e->tpl]);
		int ok = !M.cur[e->uid].present || M.cur[e->uid].owner == u;
		if (e->kind == E_ADDNAME) {
			o -= strlen("END:VEVENT\nEND:VCALENDAR\n");
			o += (size_t)snprintf(req + o, sizeof(req) - o, "X-ECHS-OWNER:%s\nEND:VEVENT\nEND:VCALENDAR\n", e->user ? "bob" : "alice");
		}
		hx_request(&rp, u, req, o);
		if (ok) {
			M.cur[e->uid] = (struct mt_s){1, u, e->tpl};
			M.dirty[e->user] = M.everdirty[e->user] = 1;
		}
		if (rp.nsucc != ok || rp.nfail != !ok) {
			snprintf(shape, sizeof(shape), "ADD/%s", rp.nsucc ? "accepted" : "refused");
			report("reply", shape, "%s: %d success / %d failure replies, expected %s", name, rp.nsucc, rp.nfail, ok ? "success" : "failure");
		}
	} else if (e->kind == E_CANCEL2) {
		size_t o = (size_t)snprintf(req, sizeof(req), "BEGIN:VCALENDAR\nVERSION:2.0\nMETHOD:CANCEL\nBEGIN:VEVENT\nUID:%s\nEND:VEVENT\nBEGIN:VEVENT\nUID:no-such-task\nEND:VEVENT\nEND:VCALENDAR\n", uids[e->uid]);
		int ok = M.cur[e->uid].present && M.cur[e->uid].owner == u;
		hx_request(&rp, u, req, o);
		if (ok) {
			M.cur[e->uid].present = 0;
			M.dirty[e->user] = M.everdirty[e->user] = 1;
		}
		if (rp.nsucc != ok || rp.nfail != 2 - ok) {
			snprintf(shape, sizeof(shape), "CANCEL2/%d-%d", rp.nsucc, rp.nfail);
			report("reply", shape, "%s: %d success / %d failure replies, expected %d / %d", name, rp.nsucc, rp.nfail, ok, 2 - ok);
		}
	} else if (e->kind == E_ADD2) {
		/* a good task followed, in the same request, by one that names another owner */
		size_t o = mk_add(req, sizeof(req), uids[e->uid], &tpls[e->tpl]);
		int ok = !M.cur[e->uid].present || M.cur[e->uid].owner == u;
		o -= strlen("END:VCALENDAR\n");
		o += (size_t)snprintf(req + o, sizeof(req) - o, "BEGIN:VEVENT\nUID:foreign\nSUMMARY:x\nDTSTART:20300101T000050Z\nX-ECHS-OWNER:%u\nEND:VEVENT\nEND:VCALENDAR\n", u == 1000 ? 1001 : 1000);
		hx_request(&rp, u, req, o);
		if (ok) {
			M.cur[e->uid] = (struct mt_s){1, u, e->tpl};
			M.dirty[e->user] = M.everdirty[e->user] = 1;
		}
		if (rp.nsucc != ok || rp.nfail != 2 - ok) {
			snprintf(shape, sizeof(shape), "ADD2/%d-%d", rp.nsucc, rp.nfail);
			report("reply", shape, "%s: %d success / %d failure replies, expected %d / %d", name, rp.nsucc, rp.nfail, ok, 2 - ok);
		}
	} else {
		size_t o = (size_t)snprintf(req, sizeof(req), "BEGIN:VCALENDAR\nVERSION:2.0\nMETHOD:CANCEL\nBEGIN:VEVENT\nUID:%s\nEND:VEVENT\nEND:VCALENDAR\n", uids[e->uid]);
		int ok = M.cur[e->uid].present && M.cur[e->uid].owner == u;
		hx_request(&rp, u, req, o);
		if (ok) {
			M.cur[e->uid].present = 0;
			M.dirty[e->user] = M.everdirty[e->user] = 1;
		}
		if (rp.nsucc != ok || rp.nfail != !ok) {
			snprintf(shape, sizeof(shape), "CANCEL/%s", rp.nsucc ? "accepted" : "refused");
			report("reply", shape, "%s: %d success / %d failure replies, expected %s", name, rp.nsucc, rp.nfail, ok ? "success" : "failure");
		}
	}
	VT->transitions++;
}

/* a checkpoint that goes through undisturbed, as a step of a longer history */
static void
apply_ckpt_quiet(const struct ev_s *e)
{
	char name[96];
	int who[NU];
	struct hx_reply_s rp;
	evname(name, sizeof(name), e);
	snprintf(hist + strlen(hist), sizeof(hist) - strlen(hist), " %s", name);
	(void)who;
	memset(cur_renamed, 0, sizeof(cur_renamed));
	if (snaps == NULL) snaps = calloc(MAXSNAP, sizeof(*snaps));
	nsnaps = MAXSNAP;	/* no snapshots, renames only */
	hx_step = 0, hx_fail_at = -1, hx_steplog_n = 0, hx_steplog[0] = '\0';
	hx_step_hook = step_hook;
	hx_steps_armed = 1;
	do_ckpt_event(e, &rp);
	hx_steps_armed = 0;
	hx_step_hook = NULL;
	for (int u = 0; u < NU; u++) {
		if (cur_renamed[u]) {
			memcpy(M.ckpt[u], M.cur, sizeof(M.cur));
			M.has_ckpt[u] = 1;
			M.dirty[u] = 0;
		}
	}
	VT->transitions++;
}

static uint64_t
canon(void)
{
	uint64_t h = 14695981039346656037ULL;
	h = hx_hash(h, &M, sizeof(M));
	h = hx_spool_hash(h);
	{
		struct hx_task_s obs[HX_MAXTASKS];
		int n = hx_observe(obs);
		for (int i = 0; i < n; i++) {
			h = hx_hash(h, obs[i].uid, strlen(obs[i].uid) + 1);
			h = hx_hash(h, &obs[i].owner, sizeof(obs[i].owner));
			h = hx_hash(h, &obs[i].at, sizeof(obs[i].at));
		}
		size_t nd = ichkpnts;
		h = hx_hash(h, &nd, sizeof(nd));
	}
	return h ? h : 1;
}

static int
visit(uint64_t key, int dl)
{
	size_t i = (size_t)(key & (VT_SIZE - 1));
	for (size_t p = 0; p < VT_SIZE; p++, i = (i + 1) & (VT_SIZE - 1)) {
		if (!VT->key[i]) {
			VT->key[i] = key, VT->dl[i] = (uint8_t)dl, VT->states++;
			return 1;
		} else if (VT->key[i] == key) {
			if (VT->dl[i] >= dl) return 0;
			VT->dl[i] = (uint8_t)dl;
			return 1;
		}
	}
	return 1;
}

static void explore(int depth);

static void
in_child(void (*fn)(const struct ev_s*), const struct ev_s *e, int depth, int recurse)
{
	pid_t c;
	int st;
	vd_beat();
	fflush(stdout);
	if ((c = fork()) == 0) {
		prctl(PR_SET_PDEATHSIG, SIGKILL);
		pruned = 0;
		fn(e);
		if (!pruned && recurse && visit(canon(), maxdepth - depth - 1)) {
			explore(depth + 1);
		}
		fflush(stdout);
		_exit(0);
	}
	while (waitpid(c, &st, 0) < 0 && errno == EINTR);
	if (!(WIFEXITED(st) && WEXITSTATUS(st) == 0)) {
		char name[96];
		evname(name, sizeof(name), e);
		vd_desc("%s %s", hist, name);
		vd_viol("crash/command", "daemon image died handling %s (status %#x)", name, st);
	}
}

static void
explore(int depth)
{
	struct ev_s ev[64];
	int n;

	/* at every state: each checkpoint-bearing event with its full crash/fault enumeration (terminal) ... */
	{
		struct ev_s c1 = {E_CHKPT, 0, 0, 0}, c2 = {E_LIST, 0, 0, 0}, c3 = {E_LIST, 1, 0, 0}, c4 = {E_SHUTDOWN, 0, 0, 0};
		in_child(checkpoint_event, &c1, depth, 0);
		in_child(checkpoint_event, &c2, depth, 0);
		in_child(checkpoint_event, &c3, depth, 0);
		in_child(checkpoint_event, &c4, depth, 0);
		/* ... and an undisturbed CHKPT / LIST as a step of longer histories */
		if (depth < maxdepth) {
			in_child(apply_ckpt_quiet, &c1, depth, 1);
			in_child(apply_ckpt_quiet, &c2, depth, 1);
		}
	}
	if (depth >= maxdepth) {
		return;
	}
	n = enabled(ev);
	for (int i = 0; i < n; i++) {
		in_child(apply_cmd, &ev[i], depth, 1);
	}
}

/* ---------------- geometry: where the lines of one big task fall in the writer's buffer ---------------- */
/* one user, one task of about 4.7 kB whose command line has length L; the final checkpoint is taken; the queue
 * file must be one complete calendar of printable lines that holds every value that was sent, and a restart must
 * schedule the task.  One case = 25 consecutive L. */
static void
geometry_block(int l0, int l1)
{
	static char req[16384], cmd[1100], pad[901];
	char shape[64], fn[40];

	if (!pad[0]) memset(pad, 'y', 900);
	for (int L = l0; L <= l1 && !pruned; L++) {
		pid_t c;
		int st;
		fflush(stdout);
		if ((c = fork()) == 0) {
			struct hx_reply_s rp;
			struct rs_task_s rs[HX_MAXTASKS];
			const struct hx_file_s *f = NULL;
			size_t o;
			int n;
			prctl(PR_SET_PDEATHSIG, SIGKILL);
			memset(cmd, 'c', (size_t)L);
			cmd[L] = '\0';
			o = (size_t)snprintf(req, sizeof(req), "BEGIN:VCALENDAR\nVERSION:2.0\nMETHOD:PUBLISH\nBEGIN:VEVENT\nUID:geo\nSUMMARY:%s\nDESCRIPTION:%s\n"
					     "X-ECHS-IFILE:/i%s\nX-ECHS-OFILE:/o%s\nX-ECHS-EFILE:/e%s\nORGANIZER:mailto:boss@example.com\n"
					     "ATTENDEE:mailto:one@example.com\nATTENDEE:mailto:two@example.com\nATTENDEE:mailto:three@example.com\nATTENDEE:mailto:four@example.com\n"
					     "X-ECHS-MAIL-OUT:1\nDTSTART:20300101T000040Z\nEND:VEVENT\nEND:VCALENDAR\n", cmd, pad, pad, pad, pad);
			snprintf(hist, sizeof(hist), "ADD(1000, one task of %zu bytes, command line of %d characters) SHUTDOWN", o, L);
			vd_desc("%s", hist);
			snprintf(shape, sizeof(shape), "geometry");
			hx_request(&rp, 1000, req, o);
			if (rp.nsucc != 1) {
				report("reply", shape, "task refused");
				_exit(3);
			}
			chkpnt();
			snprintf(fn, sizeof(fn), "echsq_1000.ics");
			for (int i = 0; i < HX_NFILES; i++) if (hx_files[i].live && !strcmp(hx_files[i].name, fn)) f = &hx_files[i];
			if (f == NULL) {
				report("queue-file", shape, "no queue file after the final checkpoint");
				_exit(3);
			}
			if (!hx_complete_ical(f->data, f->len)) {
				report("torn-live", shape, "the queue file (%zu bytes) is not one complete calendar", f->len);
				_exit(3);
			}
			for (size_t i = 0; i < f->len; i++) {
				const unsigned char ch = (unsigned char)f->data[i];
				if (ch != '\n' && ch != '\r' && ch != '\t' && (ch < 0x20 || ch == 0x7f)) {
					report("queue-file", shape, "the queue file holds a byte %#x at offset %zu (of %zu)", ch, i, f->len);
					_exit(3);
				}
			}
			{
				static const char *const must[] = {"one@example.com", "two@example.com", "three@example.com", "four@example.com", "boss@example.com", "/iyyyy", "/oyyyy", "/eyyyy"};
				for (size_t q = 0; q < sizeof(must) / sizeof(*must); q++) {
					int found = 0;
					const size_t ml = strlen(must[q]);
					for (size_t i = 0; i + ml <= f->len && !found; i++) found = !memcmp(f->data + i, must[q], ml);
					if (!found) {
						report("queue-file", shape, "the queue file does not hold %s", must[q]);
						_exit(3);
					}
				}
				/* every line is within the reader's limit or the value is lost on reload */
				for (size_t i = 0, b = 0; i <= f->len; i++) {
					if (i == f->len || f->data[i] == '\n') {
						if (i - b > 1023) {
							report("queue-file", shape, "the queue file has a line of %zu bytes (the reader takes 1023)", i - b);
							_exit(3);
						}
						b = i + 1;
					}
				}
			}
			VT->reloads++;
			n = rs_reload(hx_files, rs);
			if (n != 1 || strcmp(rs[0].uid, "geo") || rs[0].owner != 1000) {
				report("reload-set", shape, "restart schedules %d tasks instead of the one that was queued", n);
				_exit(3);
			}
			VT->traces++;
			_exit(0);
		}
		while (waitpid(c, &st, 0) < 0 && errno == EINTR);
		if (!WIFEXITED(st) || (WEXITSTATUS(st) != 0 && WEXITSTATUS(st) != 3)) {
			vd_desc("ADD(1000, big task, command line of %d characters) SHUTDOWN", L);
			vd_viol("crash/geometry", "daemon image died (status %#x)", st);
		}
		VT->transitions++;
	}
}

/* ---------------- the 17-user configuration ---------------- */
static void
many_users(int nusers, int cancel_last)
{
	/* users 2000.. each add one task; optionally one of them cancels it again; then every checkpoint-bearing event */
	char req[2048], why[200];
	struct hx_reply_s rp;
	hist[0] = '\0';
	for (int i = 0; i < nusers; i++) {
		size_t o = (size_t)snprintf(req, sizeof(req), "BEGIN:VCALENDAR\nVERSION:2.0\nMETHOD:PUBLISH\nBEGIN:VEVENT\nUID:T%d\nSUMMARY:job\nDTSTART:20300101T000020Z\nEND:VEVENT\nEND:VCALENDAR\n", i);
		hx_request(&rp, 2000u + (unsigned)i, req, o);
		if (rp.nsucc != 1) {
			snprintf(hist, sizeof(hist), "%d users add one task each", nusers);
			report("reply", "ADD/refused", "user %u's task was refused", 2000u + i);
			return;
		}
	}
	snprintf(hist, sizeof(hist), "%d users add one task each%s CHKPT", nusers, cancel_last ? ", user 2000 cancels its task," : "");
	if (cancel_last) {
		/* first make it durable, then cancel: the cancel must be durable as well */
		chkpnt();
		for (int i = 1; i < nusers; i++) {
			/* everybody touches the queue again so that the dirty list is full */
			size_t o = (size_t)snprintf(req, sizeof(req), "BEGIN:VCALENDAR\nVERSION:2.0\nMETHOD:PUBLISH\nBEGIN:VEVENT\nUID:T%d\nSUMMARY:job\nDTSTART:20300101T000020Z\nEND:VEVENT\nEND:VCALENDAR\n", i);
			hx_request(&rp, 2000u + (unsigned)i, req, o);
		}
		size_t o = (size_t)snprintf(req, sizeof(req), "BEGIN:VCALENDAR\nVERSION:2.0\nMETHOD:CANCEL\nBEGIN:VEVENT\nUID:T0\nEND:VEVENT\nEND:VCALENDAR\n");
		hx_request(&rp, 2000u, req, o);
		if (rp.nsucc != 1) {
			report("reply", "CANCEL/refused", "user 2000's cancel was refused");
			return;
		}
	}
	vd_desc("%s", hist);
	/* undisturbed final checkpoint, then restart */
	chkpnt();
	VT->transitions++;
	{
		struct rs_task_s rs[HX_MAXTASKS * 2];
		/* reload server hands back at most HX_MAXTASKS; count by name instead */
		int n = rs_reload(hx_files, rs);
		int first = cancel_last ? 1 : 0;
		VT->reloads++;
		if (n < 0) {
			report("reload-died", "many-users", "restart on the spool of %d users dies", nusers);
			return;
		}
		for (int j = 0; j < n; j++) {
			int id = atoi(rs[j].uid + 1);
			if (rs[j].owner != 2000u + (unsigned)id) {
				report("reload-alien", "many-users", "restart schedules %s for owner %u", rs[j].uid, rs[j].owner);
				return;
			}
			if (cancel_last && id == 0) {
				report("reload-set", "many-users/cancelled-task-back", "user 2000 cancelled T0 (acknowledged) and the final checkpoint ran, yet a restart schedules it again");
				return;
			}
		}
		int expect = nusers - first;
		if (expect > HX_MAXTASKS) expect = HX_MAXTASKS;
		if (n < expect) {
			snprintf(why, sizeof(why), "%d of %d tasks scheduled after restart", n, nusers - first);
			report("reload-set", "many-users/missing", "%s", why);
		}
	}
	for (int i = 0; i < HX_NFILES; i++) {
		if (hx_files[i].live && !strncmp(hx_files[i].name, "echsq_", 6) && !hx_complete_ical(hx_files[i].data, hx_files[i].len)) {
			report("torn-live", "many-users/completed", "live file %s is not a complete calendar", hx_files[i].name);
		}
	}
	VT->traces++;
}

/* a user whose uid does not fit a signed int (an NFS nobody, 4294967294) next to 15 others: all add a task (the big one two; the dump-
 * everybody path writes the files), then the big one cancels its second task in a quiet interval (the
 * per-user path writes its file), clean shutdown, restart: exactly one task of his, and the others' */
static void
big_uid(void)
{
	static struct rs_task_s rs[HX_MAXTASKS];
	char req[1024];
	struct hx_reply_s rp;
	const unsigned big = 4294967294u;
	int n, nbig = 0, nother = 0;

	snprintf(hist, sizeof(hist), "users 2000..2014 and 4294967294 add one task each, 4294967294 a second one (N2nd), CHKPT, it cancels N2nd, final checkpoint, restart");
	vd_desc("%s", hist);
	for (int i = 0; i < 16; i++) {
		const unsigned u = i < 15 ? 2000u + (unsigned)i : big;
		size_t o = (size_t)snprintf(req, sizeof(req), "BEGIN:VCALENDAR\nVERSION:2.0\nMETHOD:PUBLISH\nBEGIN:VEVENT\nUID:N%d\nSUMMARY:job\nDTSTART:20300101T000020Z\nEND:VEVENT\nEND:VCALENDAR\n", i);
		hx_request(&rp, u, req, o);
		VT->transitions++;
		if (rp.nsucc != 1) {
			report("reply", "ADD/refused", "user %u's task was refused", u);
			return;
		}
	}
	for (int step = 0; step < 2; step++) {
		/* the second task goes out with the dump-everybody checkpoint as well, its cancellation with the per-user one */
		size_t o = step == 0
			? (size_t)snprintf(req, sizeof(req), "BEGIN:VCALENDAR\nVERSION:2.0\nMETHOD:PUBLISH\nBEGIN:VEVENT\nUID:N2nd\nSUMMARY:job\nDTSTART:20300101T000030Z\nEND:VEVENT\nEND:VCALENDAR\n")
			: (size_t)snprintf(req, sizeof(req), "BEGIN:VCALENDAR\nVERSION:2.0\nMETHOD:CANCEL\nBEGIN:VEVENT\nUID:N2nd\nEND:VEVENT\nEND:VCALENDAR\n");
		hx_request(&rp, big, req, o);
		VT->transitions++;
		if (rp.nsucc != 1) {
			report("reply", "big-uid/refused", "request %d of user %u was refused", step, big);
			return;
		}
		chkpnt();
		VT->transitions++;
	}
	n = rs_reload(hx_files, rs);
	VT->reloads++;
	if (n < 0) {
		report("reload-died", "big-uid", "restart dies loading the spool");
		return;
	}
	for (int j = 0; j < n; j++) {
		if (!strcmp(rs[j].uid, "N2nd")) {
			report("reload-set", "big-uid/cancelled-task-back", "user %u cancelled N2nd (acknowledged, checkpointed), yet a restart schedules it again", big);
			return;
		}
		if (rs[j].owner == big) nbig++; else nother++;
	}
	if (nbig != 1 || nother != 15) {
		report("reload-set", "big-uid/missing", "restart schedules %d tasks of user %u and %d of the others, expected 1 and 15", nbig, big, nother);
		return;
	}
	VT->traces++;
}

/* one user with K tasks under K distinct UIDs (the UID table has to overflow into its further levels), final
 * checkpoint, restart: every UID must be back under its own name */
static void
many_tasks(int K)
{
	static struct rs_task_s rs[HX_MAXTASKS];
	char req[2048], why[200];
	struct hx_reply_s rp;
	static char seen[HX_MAXTASKS];
	int n;

	snprintf(hist, sizeof(hist), "user 1000 adds %d tasks job-0..job-%d, final checkpoint, restart", K, K - 1);
	vd_desc("%s", hist);
	for (int i = 0; i < K; i++) {
		size_t o = (size_t)snprintf(req, sizeof(req), "BEGIN:VCALENDAR\nVERSION:2.0\nMETHOD:PUBLISH\nBEGIN:VEVENT\nUID:job-%d\nSUMMARY:job\nDTSTART:20300101T000020Z\nEND:VEVENT\nEND:VCALENDAR\n", i);
		hx_request(&rp, 1000, req, o);
		VT->transitions++;
		if (rp.nsucc != 1) {
			report("reply", "ADD/refused", "task job-%d was refused", i);
			return;
		}
	}
	chkpnt();
	VT->transitions++;
	n = rs_reload(hx_files, rs);
	VT->reloads++;
	if (n < 0) {
		report("reload-died", "many-tasks", "restart on the spool with %d tasks dies", K);
		return;
	}
	memset(seen, 0, sizeof(seen));
	for (int j = 0; j < n; j++) {
		int id = -1;
		if (sscanf(rs[j].uid, "job-%d", &id) != 1 || id < 0 || id >= K || seen[id]) {
			report("reload-alien", "many-tasks", "restart schedules %s, which nobody submitted (or twice)", rs[j].uid);
			return;
		}
		seen[id] = 1;
		if (rs[j].owner != 1000u) {
			report("reload-alien", "many-tasks", "restart schedules %s for owner %u", rs[j].uid, rs[j].owner);
			return;
		}
	}
	if (n != K) {
		snprintf(why, sizeof(why), "%d of %d tasks scheduled after restart", n, K);
		report("reload-set", "many-tasks/missing", "%s", why);
		return;
	}
	VT->traces++;
}

/* text fields that carry iCalendar escapes: whatever the reader makes of them, the file the checkpoint writes must
 * stay one calendar of well-formed content lines, and a restart must schedule the accepted UIDs and no other */
static void
hostile_text(int which)
{
	static const char *const txt[] = {
		"SUMMARY:echo a\\nEND:VEVENT\\nBEGIN:VEVENT\\nUID:ghost\\nSUMMARY:x\\nDTSTART:20300101T000030Z",
		"SUMMARY:echo a\\, b\\; c\\\\ d\\N e",
		"SUMMARY:job\nLOCATION:/tmp/a\\nEND:VEVENT\\nEND:VCALENDAR\\nBEGIN:VCALENDAR\\nBEGIN:VEVENT\\nUID:ghost\\nSUMMARY:x\\nDTSTART:20300101T000030Z",
		"SUMMARY:job\nDESCRIPTION:line one\\nX-ECHS-SETUID:0\\nline three",
		"SUMMARY:job\nX-ECHS-OFILE:/tmp/out\\nX-ECHS-OWNER:0",
		"SUMMARY:job\nX-ECHS-SHELL:/bin/sh\\nX-ECHS-MAX-SIMUL:1\\nEND:VEVENT",
	};
	static struct rs_task_s rs[HX_MAXTASKS];
	char req[2048];
	struct hx_reply_s rp;
	int n;
	size_t o = (size_t)snprintf(req, sizeof(req), "BEGIN:VCALENDAR\nVERSION:2.0\nMETHOD:PUBLISH\nBEGIN:VEVENT\nUID:H\n%s\nDTSTART:20300101T000020Z\nEND:VEVENT\n"
		"BEGIN:VEVENT\nUID:P\nSUMMARY:plain\nDTSTART:20300101T000025Z\nEND:VEVENT\nEND:VCALENDAR\n", txt[which]);

	snprintf(hist, sizeof(hist), "user 1000 adds task H with the lines [%s] and a plain task P, final checkpoint, restart", txt[which]);
	for (char *q = hist; *q; q++) if (*q == '\n') *q = '|';
	vd_desc("%s", hist);
	hx_request(&rp, 1000, req, o);
	VT->transitions++;
	if (rp.nsucc + rp.nfail != 2) {
		report("reply", "hostile-text/count", "%d replies to 2 instructions", rp.nsucc + rp.nfail);
		return;
	}
	chkpnt();
	VT->transitions++;
	for (int i = 0; i < HX_NFILES; i++) {
		if (hx_files[i].live && !strncmp(hx_files[i].name, "echsq_", 6)) {
			/* every line between BEGIN:VCALENDAR and END:VCALENDAR is NAME[;param]:value or a continuation */
			const char *p = hx_files[i].data, *ep = p + hx_files[i].len;
			if (!hx_complete_ical(hx_files[i].data, hx_files[i].len)) {
				report("torn-live", "hostile-text/completed", "live file %s is not a complete calendar", hx_files[i].name);
				return;
			}
			while (p < ep) {
				const char *eol = memchr(p, '\n', (size_t)(ep - p));
				size_t len = eol ? (size_t)(eol - p) : (size_t)(ep - p);
				size_t k = 0;
				if (len && p[len - 1] == '\r') len--;
				if (len && p[0] != ' ' && p[0] != '\t') {
					for (; k < len && (isalnum((unsigned char)p[k]) || p[k] == '-'); k++);
					if (k == 0 || k >= len || (p[k] != ':' && p[k] != ';')) {
						report("torn-live", "hostile-text/content-line", "live file %s holds a line that is no content line: %.*s", hx_files[i].name, (int)(len < 60 ? len : 60), p);
						return;
					}
				}
				p = eol ? eol + 1 : ep;
			}
		}
	}
	n = rs_reload(hx_files, rs);
	VT->reloads++;
	if (n < 0) {
		report("reload-died", "hostile-text", "restart on the spool dies");
		return;
	}
	{
		int haveh = 0, havep = 0;
		for (int j = 0; j < n; j++) {
			if (!strcmp(rs[j].uid, "H")) haveh++;
			else if (!strcmp(rs[j].uid, "P")) havep++;
			else {
				report("reload-alien", "hostile-text", "restart schedules %s, which nobody submitted", rs[j].uid);
				return;
			}
			if (rs[j].owner != 1000u) {
				report("reload-alien", "hostile-text/owner", "restart schedules %s for owner %u", rs[j].uid, rs[j].owner);
				return;
			}
		}
		if (havep != 1 || haveh != (rp.nsucc == 2)) {
			report("reload-set", "hostile-text/missing", "accepted: %d of H and P; after restart H x%d, P x%d", rp.nsucc, haveh, havep);
			return;
		}
	}
	VT->traces++;
}

/* the "dump everybody" path under faults: 3 users with one task each checkpointed (old), then 18 acknowledged
 * requests (6 more tasks per user, interleaved) fill the change notes, and the checkpoint that follows writes all
 * users' files side by side, hopping between their descriptors.  Every spool call of that checkpoint fails once
 * (EIO, ENOSPC, EMFILE, short write); afterwards every live file must be one complete calendar holding either the
 * user's old task or all seven, and a restart must schedule for each user one of the two sets. */
static int
mf_count(const struct hx_file_s *f, unsigned u, int *complete)
{
	char fn[40];
	int n = 0;
	snprintf(fn, sizeof(fn), "echsq_%u.ics", u);
	*complete = 1;
	for (int i = 0; i < HX_NFILES; i++) {
		if (!f[i].live || strcmp(f[i].name, fn)) continue;
		*complete = hx_complete_ical(f[i].data, f[i].len);
		for (size_t o = 0; o + 4 < f[i].len; o++) {
			if ((o == 0 || f[i].data[o - 1] == '\n') && !memcmp(f[i].data + o, "UID:", 4)) n++;
		}
		return n;
	}
	return -1;
}

static void
many_faults(void)
{
	char req[2048], shape[96];
	struct hx_reply_s rp;
	long nsteps;
	pid_t c;
	int st;
	static const struct { const char *name; int err; int shortw; } faults[] = {{"EIO", EIO, 0}, {"ENOSPC", ENOSPC, 0}, {"EMFILE", EMFILE, 0}, {"short-write", 0, 1}, {"EINTR", EINTR, 0}};

	snprintf(hist, sizeof(hist), "users 2000..2002 add one task each, CHKPT, then 18 requests (6 more tasks per user, interleaved), CHKPT with one failing spool call");
	vd_desc("%s", hist);
	for (int i = 0; i < 3; i++) {
		size_t o = (size_t)snprintf(req, sizeof(req), "BEGIN:VCALENDAR\nVERSION:2.0\nMETHOD:PUBLISH\nBEGIN:VEVENT\nUID:U%d-0\nSUMMARY:job\nDTSTART:20300101T000020Z\nEND:VEVENT\nEND:VCALENDAR\n", i);
		hx_request(&rp, 2000u + (unsigned)i, req, o);
		if (rp.nsucc != 1) { report("reply", "ADD/refused", "task refused"); return; }
	}
	chkpnt();
	for (int k = 1; k <= 6; k++) {
		for (int i = 0; i < 3; i++) {
			size_t o = (size_t)snprintf(req, sizeof(req), "BEGIN:VCALENDAR\nVERSION:2.0\nMETHOD:PUBLISH\nBEGIN:VEVENT\nUID:U%d-%d\nSUMMARY:job number %d of user %d\nDTSTART:20300101T0000%02dZ\nEND:VEVENT\nEND:VCALENDAR\n", i, k, k, i, 20 + k);
			hx_request(&rp, 2000u + (unsigned)i, req, o);
			if (rp.nsucc != 1) { report("reply", "ADD/refused", "task refused"); return; }
		}
	}
	/* how many spool calls does the undisturbed checkpoint make */
	VT->nscratch_steps = -1;
	fflush(stdout);
	if ((c = fork()) == 0) {
		prctl(PR_SET_PDEATHSIG, SIGKILL);
		hx_step = 0, hx_fail_at = -1, hx_steplog_n = 0, hx_steplog[0] = '\0';
		hx_step_hook = NULL;
		hx_steps_armed = 1;
		chkpnt();
		hx_steps_armed = 0;
		VT->nscratch_steps = hx_step;
		for (int i = 0; i < 3; i++) {
			int comp, n = mf_count(hx_files, 2000u + (unsigned)i, &comp);
			if (n != 7 || !comp) {
				report("reload-set", "many-faults/undisturbed", "after the undisturbed checkpoint user %u's file holds %d tasks (complete: %d), expected 7", 2000u + i, n, comp);
			}
		}
		fflush(stdout);
		_exit(0);
	}
	while (waitpid(c, &st, 0) < 0 && errno == EINTR);
	nsteps = VT->nscratch_steps;
	VT->transitions++;
	if (nsteps < 0) {
		report("crash", "many-faults", "daemon image died in the undisturbed checkpoint (status %#x)", st);
		return;
	}
	for (long k = 0; k < nsteps; k++) {
		for (size_t f = 0; f < sizeof(faults) / sizeof(*faults); f++) {
			vd_beat();
			fflush(stdout);
			if ((c = fork()) == 0) {
				struct rs_task_s rs[HX_MAXTASKS];
				const char *what = "?";
				int n;
				prctl(PR_SET_PDEATHSIG, SIGKILL);
				hx_step = 0, hx_steplog_n = 0, hx_steplog[0] = '\0';
				hx_fail_at = k, hx_fail_errno = faults[f].err, hx_fail_short = faults[f].shortw;
				hx_step_hook = NULL;
				hx_steps_armed = 1;
				chkpnt();
				hx_steps_armed = 0;
				{
					static char tmp[1024];
					char *tok, *sv;
					long i = 0;
					snprintf(tmp, sizeof(tmp), "%s", hx_steplog);
					for (tok = strtok_r(tmp, " ", &sv); tok; tok = strtok_r(NULL, " ", &sv), i++) {
						if (i == k) { what = tok; break; }
					}
				}
				if (faults[f].shortw && strcmp(what, "write-short")) _exit(0);
				VT->faults++;
				snprintf(shape, sizeof(shape), "many-faults/%s-fails-%s", what, faults[f].name);
				for (int i = 0; i < 3 && !pruned; i++) {
					int comp, nu = mf_count(hx_files, 2000u + (unsigned)i, &comp);
					if (!comp) {
						report("torn-live", shape, "user %u's live queue file is not one complete calendar", 2000u + i);
					} else if (nu != 1 && nu != 7) {
						report("reload-set", shape, "user %u's live queue file holds %d tasks: neither the old checkpoint (1) nor the new one (7)", 2000u + i, nu);
					}
				}
				if (!pruned) {
					VT->reloads++;
					n = rs_reload(hx_files, rs);
					if (n < 0) {
						report("reload-died", shape, "a daemon started on this spool dies while loading it");
					} else {
						for (int i = 0; i < 3 && !pruned; i++) {
							int cnt = 0;
							for (int j = 0; j < n; j++) cnt += rs[j].owner == 2000u + (unsigned)i;
							if (cnt != 1 && cnt != 7) {
								report("reload-set", shape, "restart schedules %d tasks for user %u: neither the old checkpoint (1) nor the new one (7)", cnt, 2000u + i);
							}
						}
					}
				}
				fflush(stdout);
				_exit(0);
			}
			while (waitpid(c, &st, 0) < 0 && errno == EINTR);
			if (!(WIFEXITED(st) && WEXITSTATUS(st) == 0)) {
				snprintf(shape, sizeof(shape), "many-faults/step%ld-%s", k, faults[f].name);
				report("fail-died", shape, "daemon image died (status %#x) when spool call %ld failed with %s", st, k, faults[f].name);
				pruned = 0;
			}
		}
	}
	VT->traces++;
}

/* a job is running when its task is cancelled (or not), then the daemon shuts down cleanly: the final checkpoint
 * must hold exactly what is queued - a cancelled task is gone although its job still runs, a task that goes on
 * keeps its remaining occurrences */
static void
running_job(int cancel)
{
	char req[1024], shape[64];
	struct hx_reply_s rp;
	struct rs_task_s rs[HX_MAXTASKS];
	size_t o;
	int n, before;

	snprintf(hist, sizeof(hist), "ADD(1000,A, every 5 s x3 from +30) ADD(1000,B,oneshot+3600) CHKPT, clock to +30 (A's first job runs on)%s SHUTDOWN", cancel ? ", CANCEL(1000,A)" : "");
	vd_desc("%s", hist);
	snprintf(shape, sizeof(shape), "running-job/%s", cancel ? "cancelled" : "goes-on");
	o = mk_add(req, sizeof(req), "A", &tpls[1]);
	hx_request(&rp, 1000, req, o);
	if (rp.nsucc != 1) { report("reply", shape, "task refused"); return; }
	o = (size_t)snprintf(req, sizeof(req), "BEGIN:VCALENDAR\nVERSION:2.0\nMETHOD:PUBLISH\nBEGIN:VEVENT\nUID:B\nSUMMARY:job-B\nDTSTART:20300101T010000Z\nEND:VEVENT\nEND:VCALENDAR\n");
	hx_request(&rp, 1000, req, o);
	if (rp.nsucc != 1) { report("reply", shape, "task refused"); return; }
	chkpnt();
	before = hx_nspawns;
	hx_tick(HX_T0 + 30.001);
	VT->transitions++;
	if (hx_nspawns != before + 1) { report("harness", shape, "%d jobs started at +30, expected 1", hx_nspawns - before); return; }
	if (cancel) {
		o = (size_t)snprintf(req, sizeof(req), "BEGIN:VCALENDAR\nVERSION:2.0\nMETHOD:CANCEL\nBEGIN:VEVENT\nUID:A\nEND:VEVENT\nEND:VCALENDAR\n");
		hx_request(&rp, 1000, req, o);
		VT->transitions++;
		if (rp.nsucc != 1) { report("reply", shape, "cancel of a task whose job runs is refused"); return; }
	}
	chkpnt();
	VT->transitions++;
	for (int i = 0; i < HX_NFILES; i++) {
		if (hx_files[i].live && !strncmp(hx_files[i].name, "echsq_", 6) && !hx_complete_ical(hx_files[i].data, hx_files[i].len)) {
			report("torn-live", shape, "live file %s is not one complete calendar", hx_files[i].name);
			return;
		}
	}
	VT->reloads++;
	n = rs_reload(hx_files, rs);
	if (n < 0) { report("reload-died", shape, "restart dies loading the spool"); return; }
	{
		int hasA = 0, hasB = 0;
		double atA = 0;
		for (int j = 0; j < n; j++) {
			if (!strcmp(rs[j].uid, "A") && rs[j].owner == 1000) hasA = 1, atA = rs[j].at;
			if (!strcmp(rs[j].uid, "B") && rs[j].owner == 1000) hasB = 1;
		}
		if (!hasB) { report("reload-set", shape, "B of user 1000 is missing after restart"); return; }
		if (cancel && hasA) { report("reload-set", shape, "A was cancelled (acknowledged) while its job ran, the clean shutdown checkpointed, yet a restart schedules A again (for +%.0f)", atA - HX_T0); return; }
		if (!cancel && (!hasA || atA != HX_T0 + 35)) { report("reload-set", shape, "A has run once and has occurrences at +35 and +40 left; after restart it is %s (armed +%.0f)", hasA ? "scheduled" : "missing", atA - HX_T0); return; }
		if (n != 1 + !cancel) { report("reload-alien", shape, "restart schedules %d tasks", n); return; }
	}
	VT->traces++;
}

static void
enumerate(void)
{
	const char *mode = vd_opt("mode", "hist");
	struct ev_s e1[64];
	int n1;

	maxdepth = (int)vd_opt_l("depth", 2);
	epoch2 = (int)vd_opt_l("epoch2", 1);
	if (VT == NULL) {
		VT = mmap(NULL, sizeof(*VT), PROT_READ | PROT_WRITE, MAP_SHARED | MAP_ANONYMOUS, -1, 0);
		/* pin: forks are much cheaper on one CPU */
		unsigned long mask[16] = {0};
		long ncpu = sysconf(_SC_NPROCESSORS_ONLN);
		unsigned cpu = (unsigned)(vd_shard % (ncpu > 0 ? ncpu : 1));
		mask[cpu / (8 * sizeof(long))] |= 1UL << (cpu % (8 * sizeof(long)));
		(void)syscall(SYS_sched_setaffinity, 0L, (long)sizeof(mask), (long)mask, 0L, 0L, 0L);
		/* the pristine image for restarts is forked before the daemon is booted */
		if (syscall(SYS_pipe2, (long)rs_req, 0L, 0L, 0L, 0L, 0L) < 0 || syscall(SYS_pipe2, (long)rs_rsp, 0L, 0L, 0L, 0L, 0L) < 0) _exit(5);
		if (fork() == 0) {
			rs_serve();
			_exit(0);
		}
	}
	hx_boot(1);
	memset(&M, 0, sizeof(M));
	hist[0] = '\0';

	if (!strcmp(mode, "geometry")) {
		const int lmax = (int)vd_opt_l("lmax", 1000);
		for (int l0 = 1; l0 <= lmax; l0 += 25) {
			if (!vd_next()) continue;
			vd_shape("geometry");
			memset(VT, 0, sizeof(*VT));
			geometry_block(l0, l0 + 24 <= lmax ? l0 + 24 : lmax);
			vd_count("states", 1 + VT->transitions);
			vd_count("transitions", VT->transitions);
			vd_count("traces", VT->traces);
			vd_count("reloads", VT->reloads);
			vd_nontrivial();
			if (vd_want_sample()) vd_sample("one 4.7 kB task with a command line of %d..%d characters, final checkpoint, file inspected, restart", l0, l0 + 24);
		}
		return;
	}
	if (!strcmp(mode, "many")) {
		if (vd_next()) {
			vd_shape("many/faults");
			memset(VT, 0, sizeof(*VT));
			fflush(stdout);
			pid_t c = fork();
			if (c == 0) {
				prctl(PR_SET_PDEATHSIG, SIGKILL);
				many_faults();
				fflush(stdout);
				_exit(0);
			}
			int st;
			while (waitpid(c, &st, 0) < 0 && errno == EINTR);
			if (!(WIFEXITED(st) && WEXITSTATUS(st) == 0)) {
				vd_desc("3 users, 18 requests, CHKPT with faults");
				vd_viol("crash/many-faults", "daemon image died (status %#x)", st);
			}
			vd_count("states", 1 + VT->transitions);
			vd_count("transitions", VT->transitions);
			vd_count("traces", VT->traces);
			vd_count("faults", VT->faults);
			vd_count("reloads", VT->reloads);
			vd_nontrivial();
			vd_sample("3 users x 7 tasks, dump-everybody checkpoint, every spool call failing once: %ld faults judged", VT->faults);
		}
		for (int cl = 0; cl < 2; cl++) {
			if (!vd_next()) continue;
			vd_shape("running-job/%s", cl ? "cancelled" : "goes-on");
			memset(VT, 0, sizeof(*VT));
			fflush(stdout);
			pid_t c = fork();
			if (c == 0) {
				prctl(PR_SET_PDEATHSIG, SIGKILL);
				running_job(cl);
				fflush(stdout);
				_exit(0);
			}
			int st;
			while (waitpid(c, &st, 0) < 0 && errno == EINTR);
			if (!(WIFEXITED(st) && WEXITSTATUS(st) == 0)) {
				vd_desc("a job runs, its task is %s, SHUTDOWN", cl ? "cancelled" : "left alone");
				vd_viol("crash/running-job", "daemon image died (status %#x)", st);
			}
			vd_count("states", 1 + VT->transitions);
			vd_count("transitions", VT->transitions);
			vd_count("traces", VT->traces);
			vd_count("reloads", VT->reloads);
			vd_nontrivial();
			vd_sample("job of A runs, A %s, clean shutdown, restart", cl ? "cancelled" : "goes on");
		}
		for (int ni = 0; ni < 6; ni++) {
			/* 17 and more users: the dump-everybody path has to enlarge its list of open files half-way */
			static const int nn[] = {15, 16, 17, 18, 40, 100};
			const int n = nn[ni];
			for (int cl = 0; cl < 2; cl++) {
				if (!vd_next()) continue;
				vd_shape("many/%d/%s", n, cl ? "cancel" : "plain");
				memset(VT, 0, sizeof(*VT));
				fflush(stdout);
				pid_t c = fork();
				if (c == 0) {
					prctl(PR_SET_PDEATHSIG, SIGKILL);
					many_users(n, cl);
					fflush(stdout);
					_exit(0);
				}
				int st;
				while (waitpid(c, &st, 0) < 0 && errno == EINTR);
				if (!(WIFEXITED(st) && WEXITSTATUS(st) == 0)) {
					vd_desc("%d users add one task each, CHKPT", n);
					vd_viol("crash/many-users", "daemon image died (status %#x)", st);
				}
				vd_count("states", 1 + VT->transitions);
				vd_count("transitions", VT->transitions);
				vd_count("traces", VT->traces);
				vd_count("reloads", VT->reloads);
		vd_count("second_epoch_histories", VT->epoch2);
				vd_nontrivial();
				vd_sample("%d users (2000..) add one task each%s, final checkpoint, restart", n, cl ? ", user 2000 cancels" : "");
			}
		}
		for (int q = 0; q < 4 + 6 + 1; q++) {
			static const int kk[] = {150, 200, 257, 290};
			if (!vd_next()) continue;
			vd_shape(q < 4 ? "many-tasks/%d" : q < 10 ? "hostile-text/%d" : "big-uid/%d", q < 4 ? kk[q] : q - 4);
			memset(VT, 0, sizeof(*VT));
			fflush(stdout);
			pid_t c = fork();
			if (c == 0) {
				prctl(PR_SET_PDEATHSIG, SIGKILL);
				if (q < 4) many_tasks(kk[q]); else if (q < 10) hostile_text(q - 4); else big_uid();
				fflush(stdout);
				_exit(0);
			}
			int st;
			while (waitpid(c, &st, 0) < 0 && errno == EINTR);
			if (!(WIFEXITED(st) && WEXITSTATUS(st) == 0)) {
				vd_viol(q < 4 ? "crash/many-tasks" : "crash/hostile-text", "daemon image died (status %#x)", st);
			}
			vd_count("states", 1 + VT->transitions);
			vd_count("transitions", VT->transitions);
			vd_count("traces", VT->traces);
			vd_count("reloads", VT->reloads);
			vd_nontrivial();
			if (q < 4) vd_sample("one user, %d tasks, final checkpoint, restart", kk[q]); else if (q < 10) vd_sample("escapes in text fields, variant %d", q - 4); else vd_sample("a uid beyond INT_MAX through both checkpoint paths");
		}
		return;
	}
	/* one case per first command */
	n1 = enabled(e1);
	for (int i = 0; i <= n1; i++) {
		char name[96] = "(no command)";
		if (!vd_next()) continue;
		if (i < n1) evname(name, sizeof(name), &e1[i]);
		vd_desc("%s ...", name);
		vd_shape("first=%s", i < n1 ? evk(&e1[i]) : "none");
		memset(VT, 0, sizeof(*VT));
		fflush(stdout);
		pid_t c = fork();
		if (c == 0) {
			prctl(PR_SET_PDEATHSIG, SIGKILL);
			pruned = 0;
			if (i < n1) {
				apply_cmd(&e1[i]);
				if (!pruned && visit(canon(), maxdepth - 1)) explore(1);
			} else {
				/* the empty history: checkpoints of an empty daemon */
				int sv = maxdepth;
				maxdepth = 0;
				explore(0);
				maxdepth = sv;
			}
			fflush(stdout);
			_exit(0);
		}
		int st;
		while (waitpid(c, &st, 0) < 0 && errno == EINTR);
		if (!(WIFEXITED(st) && WEXITSTATUS(st) == 0)) {
			vd_viol("crash/first-command", "daemon image died (status %#x)", st);
		}
		vd_count("states", VT->states);
		vd_count("transitions", VT->transitions);
		vd_count("traces", VT->traces);
		vd_count("crashpoints", VT->crashpoints);
		vd_count("faults", VT->faults);
		vd_count("reloads", VT->reloads);
		vd_count("second_epoch_histories", VT->epoch2);
		if (VT->crashpoints + VT->faults >= 2) vd_nontrivial();
		vd_sample("%s ... : %ld states, %ld checkpoint runs with %ld crash points and %ld injected faults, %ld restarts (depth %d)", name,
			  VT->states, VT->traces, VT->crashpoints, VT->faults, VT->reloads, maxdepth);
	}
}

int
main(int argc, char *argv[])
{
	return vd_main(argc, argv, enumerate);
}
