/* hx.h -- E2: the unmodified echsd.c inside a harness that owns its environment
 * (DESIGN.md section 2, E2).  Include this ONCE from a driver TU.
 *
 * Owned seams:
 *   clock        clock_gettime / gettimeofday / time / syscall(SYS_clock_gettime)  -> hx_now
 *   job spawn    posix_spawn -> recorded, fake pid; the VTODO written to the child's stdin is captured
 *   users        getpwuid / getpwnam -> fixed table
 *   spool dir    openat/write/close/renameat/unlinkat/fstatat/lseek/sendfile/read/opendir/readdir on
 *                the spool are served by an in-memory file table (forks with the process); every such
 *                call is a numbered step at which a fault can be injected or a snapshot taken
 *   clients      a request is written into one end of a socketpair and the daemon's own
 *                sock_data_cb() is run on the other end with chosen peer credentials
 *   loop         ev_run(loop, EVRUN_NOWAIT) once per TICK/EXIT; libev decides what is due
 */
#if !defined INCLUDED_hx_h_
#define INCLUDED_hx_h_

/* --- things that must be seen before echsd.c --- */
#include <sys/types.h>
#include <sys/socket.h>
#include <sys/syscall.h>
#include <sys/time.h>
#include <sys/stat.h>
#include <sys/sendfile.h>
#include <spawn.h>
#include <dirent.h>
#include <fcntl.h>
#include <pwd.h>
#include <time.h>
#include <unistd.h>
#include <errno.h>
#include <stdio.h>
#include <stdlib.h>
#include <string.h>
#include <stdint.h>
#include <stdbool.h>
#include <ev.h>

#include <sys/wait.h>
static int hx_pipe(int fd[2]);
static pid_t hx_waitpid(pid_t pid, int *st, int opts);
static void hx_child_start(struct ev_loop *loop, ev_child *c);
static void hx_child_stop(struct ev_loop *loop, ev_child *c);

#define main			echsd_main
#define pipe			hx_pipe
#define ev_child_start		hx_child_start
#define ev_child_stop		hx_child_stop
/* the daemon has no business waiting for children itself (libev does); should it, it finds the fake ones */
#define waitpid			hx_waitpid
#include "echsd.c"
#undef waitpid
#undef main
#undef pipe
#undef ev_child_start
#undef ev_child_stop

/* ================= virtual clock ================= */
static double hx_now = 1893456000.0;	/* 2030-01-01T00:00:00Z */
static double hx_t0 = 1893456000.0;	/* start of virtual time, settable before hx_boot() */
#define HX_T0	hx_t0

int
clock_gettime(clockid_t id, struct timespec *ts)
{
	(void)id;
	ts->tv_sec = (time_t)hx_now;
	ts->tv_nsec = (long)((hx_now - (double)ts->tv_sec) * 1e9);
	return 0;
}

int
gettimeofday(struct timeval *tv, void *tz)
{
	(void)tz;
	tv->tv_sec = (time_t)hx_now;
	tv->tv_usec = (long)((hx_now - (double)tv->tv_sec) * 1e6);
	return 0;
}

time_t
time(time_t *t)
{
	if (t) *t = (time_t)hx_now;
	return (time_t)hx_now;
}

static long
hx_raw_syscall6(long n, long a, long b, long c, long d, long e, long f)
{
	long ret;
	register long r10 __asm__("r10") = d;
	register long r8 __asm__("r8") = e;
	register long r9 __asm__("r9") = f;
	__asm__ volatile("syscall" : "=a"(ret) : "a"(n), "D"(a), "S"(b), "d"(c), "r"(r10), "r"(r8), "r"(r9) : "rcx", "r11", "memory");
	return ret;
}

long
syscall(long n, ...)
{
	va_list ap;
	long a, b, c, d, e, f, r;
	va_start(ap, n);
	a = va_arg(ap, long), b = va_arg(ap, long), c = va_arg(ap, long);
	d = va_arg(ap, long), e = va_arg(ap, long), f = va_arg(ap, long);
	va_end(ap);
	if (n == SYS_clock_gettime) {
		return clock_gettime((clockid_t)a, (struct timespec*)b);
	}
	r = hx_raw_syscall6(n, a, b, c, d, e, f);
	if (r < 0 && r > -4096) {
		errno = (int)-r;
		return -1;
	}
	return r;
}

/* ================= users ================= */
#define HX_NUSERS	3
static struct passwd hx_pw[HX_NUSERS] = {
	{.pw_name = "root", .pw_uid = 0, .pw_gid = 0, .pw_dir = "/root", .pw_shell = "/bin/sh"},
	{.pw_name = "alice", .pw_uid = 1000, .pw_gid = 1000, .pw_dir = "/home/alice", .pw_shell = "/bin/sh"},
	{.pw_name = "bob", .pw_uid = 1001, .pw_gid = 1001, .pw_dir = "/home/bob", .pw_shell = "/bin/bash"},
};
/* extra users for the 17-user checkpoint configuration */
static struct passwd hx_pwx;
static char hx_pwx_name[32], hx_pwx_dir[48];

/* the user data base fails to answer the N-th look-up from now on (once): what a flaky directory service does */
static int hx_pw_fail_in;

struct passwd*
getpwuid(uid_t u)
{
	if (hx_pw_fail_in > 0 && --hx_pw_fail_in == 0) {
		return NULL;
	}
	for (int i = 0; i < HX_NUSERS; i++) {
		if (hx_pw[i].pw_uid == u) return &hx_pw[i];
	}
	if ((u >= 2000 && u < 2100) || u == 4294967294u) {
		snprintf(hx_pwx_name, sizeof(hx_pwx_name), "u%u", u);
		snprintf(hx_pwx_dir, sizeof(hx_pwx_dir), "/home/u%u", u);
		hx_pwx = (struct passwd){.pw_name = hx_pwx_name, .pw_uid = u, .pw_gid = u, .pw_dir = hx_pwx_dir, .pw_shell = "/bin/sh"};
		return &hx_pwx;
	}
	return NULL;
}

struct passwd*
getpwnam(const char *n)
{
	for (int i = 0; i < HX_NUSERS; i++) {
		if (!strcmp(hx_pw[i].pw_name, n)) return &hx_pw[i];
	}
	return NULL;
}

/* ================= in-memory spool ================= */
#define HX_QDIRFD	900		/* what the daemon's qdirfd is set to */
#define HX_FDBASE	1000
#define HX_NFILES	256
#define HX_NFDS		160
#define HX_SPOOLPATH	"/hx-spool"

struct hx_file_s {
	char name[40];
	char *data;
	size_t len;
	int live;
};
struct hx_fd_s {
	int used;
	int file;
	size_t pos;
	int wr;
};
static struct hx_file_s hx_files[HX_NFILES];
static struct hx_fd_s hx_fds[HX_NFDS];

/* step accounting and fault injection */
static long hx_step;			/* number of spool calls so far */
static long hx_fail_at = -1;		/* step index at which to fail */
static int hx_fail_errno;
static int hx_fail_short;		/* for write: write only half and then fail later calls normally */
static void (*hx_step_hook)(long step, const char *what, const char *name);	/* called BEFORE each spool call */
static int hx_steps_armed;		/* hooks and faults only while armed (inside a checkpoint) */
static char hx_steplog[1024];
static size_t hx_steplog_n;

static int
hx_findfile(const char *name)
{
	for (int i = 0; i < HX_NFILES; i++) {
		if (hx_files[i].live && !strcmp(hx_files[i].name, name)) return i;
	}
	return -1;
}

static int
hx_newfile(const char *name)
{
	for (int i = 0; i < HX_NFILES; i++) {
		if (!hx_files[i].live) {
			snprintf(hx_files[i].name, sizeof(hx_files[i].name), "%s", name);
			hx_files[i].data = NULL;
			hx_files[i].len = 0;
			hx_files[i].live = 1;
			return i;
		}
	}
	return -1;
}

/* returns 1 if the call is to fail (errno set) */
static int
hx_step_enter(const char *what, const char *name)
{
	long me;
	if (!hx_steps_armed) {
		return 0;
	}
	me = hx_step++;
	if (hx_steplog_n + 24 < sizeof(hx_steplog)) {
		hx_steplog_n += (size_t)snprintf(hx_steplog + hx_steplog_n, sizeof(hx_steplog) - hx_steplog_n, "%s%s", hx_steplog_n ? " " : "", what);
	}
	if (hx_step_hook) {
		hx_step_hook(me, what, name);
	}
	if (me == hx_fail_at) {
		errno = hx_fail_errno;
		return 1;
	}
	return 0;
}

int
openat(int dfd, const char *path, int flags, ...)
{
	mode_t mode = 0;
	if (flags & O_CREAT) {
		va_list ap;
		va_start(ap, flags);
		mode = (mode_t)va_arg(ap, int);
		va_end(ap);
	}
	if (dfd != HX_QDIRFD) {
		return (int)syscall(SYS_openat, (long)dfd, (long)path, (long)flags, (long)mode, 0L, 0L);
	}
	if (hx_step_enter((flags & O_ACCMODE) == O_RDONLY ? "open-r" : "open-w", path)) {
		return -1;
	}
	int fi = hx_findfile(path);
	if (fi < 0) {
		if (!(flags & O_CREAT)) {
			errno = ENOENT;
			return -1;
		}
		if ((fi = hx_newfile(path)) < 0) {
			errno = ENOSPC;
			return -1;
		}
	} else if (flags & O_TRUNC) {
		free(hx_files[fi].data);
		hx_files[fi].data = NULL;
		hx_files[fi].len = 0;
	}
	for (int i = 0; i < HX_NFDS; i++) {
		if (!hx_fds[i].used) {
			hx_fds[i] = (struct hx_fd_s){1, fi, 0, (flags & O_ACCMODE) != O_RDONLY};
			return HX_FDBASE + i;
		}
	}
	errno = EMFILE;
	return -1;
}

static int
hx_isv(int fd)
{
	return fd >= HX_FDBASE && fd < HX_FDBASE + HX_NFDS && hx_fds[fd - HX_FDBASE].used;
}

ssize_t
write(int fd, const void *buf, size_t n)
{
	if (!hx_isv(fd)) {
		return (ssize_t)syscall(SYS_write, (long)fd, (long)buf, (long)n, 0L, 0L, 0L);
	}
	struct hx_fd_s *d = &hx_fds[fd - HX_FDBASE];
	struct hx_file_s *f = &hx_files[d->file];
	if (hx_steps_armed && hx_step == hx_fail_at && hx_fail_short && n > 1) {
		/* a short write: half of it goes through, the call itself succeeds */
		(void)hx_step_enter("write-short", f->name);
		n /= 2;
	} else if (hx_step_enter("write", f->name)) {
		return -1;
	}
	f->data = realloc(f->data, d->pos + n + 1);
	memcpy(f->data + d->pos, buf, n);
	d->pos += n;
	if (d->pos > f->len) f->len = d->pos;
	return (ssize_t)n;
}

ssize_t
read(int fd, void *buf, size_t n)
{
	if (!hx_isv(fd)) {
		return (ssize_t)syscall(SYS_read, (long)fd, (long)buf, (long)n, 0L, 0L, 0L);
	}
	struct hx_fd_s *d = &hx_fds[fd - HX_FDBASE];
	struct hx_file_s *f = &hx_files[d->file];
	size_t left = f->len > d->pos ? f->len - d->pos : 0;
	if (n > left) n = left;
	memcpy(buf, f->data + d->pos, n);
	d->pos += n;
	return (ssize_t)n;
}

int
close(int fd)
{
	if (!hx_isv(fd)) {
		return (int)syscall(SYS_close, (long)fd, 0L, 0L, 0L, 0L, 0L);
	}
	if (hx_fds[fd - HX_FDBASE].wr && hx_step_enter("close", hx_files[hx_fds[fd - HX_FDBASE].file].name)) {
		/* like the kernel: the descriptor is gone even if close reports an error */
		hx_fds[fd - HX_FDBASE].used = 0;
		return -1;
	}
	hx_fds[fd - HX_FDBASE].used = 0;
	return 0;
}

off_t
lseek(int fd, off_t off, int whence)
{
	if (!hx_isv(fd)) {
		return (off_t)syscall(SYS_lseek, (long)fd, (long)off, (long)whence, 0L, 0L, 0L);
	}
	struct hx_fd_s *d = &hx_fds[fd - HX_FDBASE];
	struct hx_file_s *f = &hx_files[d->file];
	switch (whence) {
	case SEEK_SET: d->pos = (size_t)off; break;
	case SEEK_CUR: d->pos += (size_t)off; break;
	case SEEK_END: d->pos = f->len + (size_t)off; break;
	}
	return (off_t)d->pos;
}

int
renameat(int odfd, const char *o, int ndfd, const char *n)
{
	if (odfd != HX_QDIRFD || ndfd != HX_QDIRFD) {
		return (int)syscall(SYS_renameat, (long)odfd, (long)o, (long)ndfd, (long)n, 0L, 0L);
	}
	if (hx_step_enter("rename", n)) {
		return -1;
	}
	int fo = hx_findfile(o), fn = hx_findfile(n);
	if (fo < 0) {
		errno = ENOENT;
		return -1;
	}
	if (fn >= 0) {
		free(hx_files[fn].data);
		hx_files[fn].live = 0;
	}
	snprintf(hx_files[fo].name, sizeof(hx_files[fo].name), "%s", n);
	return 0;
}

int
unlinkat(int dfd, const char *path, int fl)
{
	if (dfd != HX_QDIRFD) {
		return (int)syscall(SYS_unlinkat, (long)dfd, (long)path, (long)fl, 0L, 0L, 0L);
	}
	if (hx_step_enter("unlink", path)) {
		return -1;
	}
	int fi = hx_findfile(path);
	if (fi < 0) {
		errno = ENOENT;
		return -1;
	}
	/* open descriptors keep the data alive in a real fs; here nobody reads after unlink */
	hx_files[fi].live = 0;
	return 0;
}

int
fstatat(int dfd, const char *path, struct stat *st, int fl)
{
	if (dfd != HX_QDIRFD) {
		return (int)syscall(SYS_newfstatat, (long)dfd, (long)path, (long)st, (long)fl, 0L, 0L);
	}
	int fi = hx_findfile(path);
	if (fi < 0) {
		errno = ENOENT;
		return -1;
	}
	memset(st, 0, sizeof(*st));
	st->st_size = (off_t)hx_files[fi].len;
	st->st_mode = S_IFREG | 0600;
	return 0;
}

ssize_t
sendfile(int ofd, int ifd, off_t *off, size_t n)
{
	if (!hx_isv(ifd)) {
		return (ssize_t)syscall(SYS_sendfile, (long)ofd, (long)ifd, (long)off, (long)n, 0L, 0L);
	}
	struct hx_fd_s *d = &hx_fds[ifd - HX_FDBASE];
	struct hx_file_s *f = &hx_files[d->file];
	size_t left = f->len > d->pos ? f->len - d->pos : 0;
	if (n > left) n = left;
	if (!n) return 0;
	ssize_t w = write(ofd, f->data + d->pos, n);
	if (w > 0) d->pos += (size_t)w;
	(void)off;
	return w;
}

/* directory listing of the spool */
static struct {
	int active;
	int i;
	struct dirent de;
} hx_dir;

DIR*
opendir(const char *path)
{
	if (strcmp(path, HX_SPOOLPATH)) {
		errno = ENOENT;
		return NULL;
	}
	hx_dir.active = 1;
	hx_dir.i = 0;
	return (DIR*)&hx_dir;
}

struct dirent*
readdir(DIR *d)
{
	if ((void*)d != (void*)&hx_dir) return NULL;
	for (; hx_dir.i < HX_NFILES; hx_dir.i++) {
		if (hx_files[hx_dir.i].live) {
			memset(&hx_dir.de, 0, sizeof(hx_dir.de));
			snprintf(hx_dir.de.d_name, sizeof(hx_dir.de.d_name), "%s", hx_files[hx_dir.i].name);
			hx_dir.i++;
			return &hx_dir.de;
		}
	}
	return NULL;
}

int
closedir(DIR *d)
{
	(void)d;
	hx_dir.active = 0;
	return 0;
}

/* ================= job spawning ================= */
#define HX_MAXSPAWN	192
struct hx_spawn_s {
	double at;		/* virtual time of the spawn */
	int pid;
	int nd;			/* started with the no-run flag */
	char uid[64];		/* UID line of the VTODO */
	unsigned setuid;	/* X-ECHS-SETUID of the VTODO */
	int dur;		/* DURATION line, raw integer, -1 if absent */
	char vtodo_ok;		/* VTODO complete (BEGIN/END balanced) */
};
static struct hx_spawn_s hx_spawns[HX_MAXSPAWN];
static int hx_nspawns;
static int hx_nextpid = 5000;
static int hx_lastpipe_r = -1;
static int hx_pipe_fail;	/* number of pipe() calls to fail with EMFILE */
static long hx_spawn_total;	/* all spawns, also those beyond the HX_MAXSPAWN that are recorded */
static int hx_last_nd;
static int hx_spawn_fail;	/* number of posix_spawn() calls to fail with EAGAIN */
static int hx_sticky_nd;	/* argv[2] of the latest spawn was -nd (the static args[] never forgets) */

static void hx_collect_vtodo(struct hx_spawn_s *s);

static int
hx_pipe(int fd[2])
{
	int r;
	if (hx_pipe_fail > 0) {
		/* injected fault: the daemon is out of file descriptors for a moment */
		hx_pipe_fail--;
		errno = EMFILE;
		return -1;
	}
	if (hx_lastpipe_r >= 0 && hx_nspawns > 0) {
		/* the previous run_task() of this iteration is complete by now */
		hx_collect_vtodo(&hx_spawns[hx_nspawns - 1]);
	}
	r = (int)syscall(SYS_pipe2, (long)fd, 0L, 0L, 0L, 0L, 0L);
	if (r == 0) {
		/* keep a reader alive so that the daemon's VTODO write does not hit EPIPE */
		hx_lastpipe_r = (int)syscall(SYS_dup, (long)fd[0], 0L, 0L, 0L, 0L, 0L);
	}
	return r;
}

int
posix_spawn(pid_t *pid, const char *path, const posix_spawn_file_actions_t *fa,
	    const posix_spawnattr_t *at, char *const argv[], char *const envp[])
{
	(void)path, (void)fa, (void)at, (void)envp;
	if (hx_spawn_fail > 0) {
		/* injected fault: no more processes for a moment; like the real one, the failure is the RETURN value */
		hx_spawn_fail--;
		return EAGAIN;
	}
	if (hx_nspawns < HX_MAXSPAWN) {
		struct hx_spawn_s *s = &hx_spawns[hx_nspawns++];
		memset(s, 0, sizeof(*s));
		s->at = hx_now;
		s->pid = hx_nextpid;
		s->dur = -1;
		for (int i = 0; argv[i]; i++) {
			if (!strcmp(argv[i], "-nd")) s->nd = 1;
		}
		hx_sticky_nd = s->nd;
	}
	hx_spawn_total++;
	hx_last_nd = 0;
	for (int i = 0; argv[i]; i++) {
		if (!strcmp(argv[i], "-nd")) hx_last_nd = 1;
	}
	*pid = hx_nextpid++;
	return 0;
}

/* called after a loop iteration: read the VTODOs the daemon wrote for the spawns of this step */
static void
hx_collect_vtodo(struct hx_spawn_s *s)
{
	char buf[8192];
	ssize_t n;
	if (hx_lastpipe_r < 0) return;
	/* the write end is closed by run_task() by now */
	n = (ssize_t)syscall(SYS_read, (long)hx_lastpipe_r, (long)buf, (long)(sizeof(buf) - 1), 0L, 0L, 0L);
	syscall(SYS_close, (long)hx_lastpipe_r, 0L, 0L, 0L, 0L, 0L);
	hx_lastpipe_r = -1;
	if (n <= 0) return;
	buf[n] = '\0';
	const char *p;
	if ((p = strstr(buf, "\nUID:"))) {
		sscanf(p + 5, "%63[^\n]", s->uid);
	}
	if ((p = strstr(buf, "\nX-ECHS-SETUID:"))) {
		s->setuid = (unsigned)strtoul(p + 15, NULL, 10);
	}
	if ((p = strstr(buf, "\nDURATION:"))) {
		/* PT<n>S since the daemon writes ISO durations; a bare number before that */
		s->dur = !strncmp(p + 10, "PT", 2) ? atoi(p + 12) : atoi(p + 10);
	}
	s->vtodo_ok = strstr(buf, "BEGIN:VTODO\n") && strstr(buf, "END:VTODO\n") && strstr(buf, "END:VCALENDAR\n");
}

/* ================= children ================= */
#define HX_MAXCHLD	128
static ev_child *hx_chld[HX_MAXCHLD];
static int hx_nchld;

static void
hx_child_start(struct ev_loop *loop, ev_child *c)
{
	(void)loop;
	if (hx_nchld < HX_MAXCHLD) {
		hx_chld[hx_nchld++] = c;
	}
}

static void
hx_child_stop(struct ev_loop *loop, ev_child *c)
{
	(void)loop;
	for (int i = 0; i < hx_nchld; i++) {
		if (hx_chld[i] == c) {
			memmove(hx_chld + i, hx_chld + i + 1, sizeof(*hx_chld) * (size_t)(hx_nchld - i - 1));
			hx_nchld--;
			return;
		}
	}
}

/* a job that has exited but has not been collected by libev yet (it exits while an iteration is under way, after
 * libev has looked at its signals): if the daemon waits for "any child" itself, it gets this one and libev never
 * hears of it */
static ev_child *hx_unreaped;
static int hx_stolen;

static pid_t
hx_waitpid(pid_t pid, int *st, int opts)
{
	(void)opts;
	if (hx_unreaped != NULL && (pid == -1 || pid == hx_unreaped->pid)) {
		pid_t r = hx_unreaped->pid;
		if (st) *st = 0;
		hx_unreaped = NULL;
		hx_stolen = 1;
		return r;
	}
	errno = ECHILD;
	return -1;
}

/* ================= daemon life cycle ================= */
static struct _echsd_s *hx_ctx;
static double hx_drift;	/* virtual seconds that pass while a wake-up with spawns is handled */

static void
hx_nolog(int prio, const char *fmt, ...)
{
	(void)prio, (void)fmt;
}

static void
hx_boot(int quiet)
{
	setenv("LIBEV_FLAGS", "1", 1);	/* select backend: no kernel state across fork */
	echs_log = quiet ? hx_nolog : echs_errlog;
	qdirfd = HX_QDIRFD;
	echsx = "/hx/echsx";
	meself.uid = 0;
	meself.gid = 0;
	meself.pid = 4242;
	snprintf(hname, sizeof(hname), "hxhost");
	hnamez = strlen(hname);
	hx_ctx = make_echsd();
	if (hx_ctx == NULL) {
		fprintf(stderr, "hx: make_echsd failed\n");
		_exit(4);
	}
	/* the 60 s checkpoint timer is delivered as an explicit CHKPT event */
	ev_timer_stop(hx_ctx->loop, &hx_ctx->cptim);
	/* settle libev's notion of time */
	ev_run(hx_ctx->loop, EVRUN_NOWAIT);
}

/* one loop iteration at the current virtual time; collects VTODOs of new spawns */
static int
hx_iterate(void)
{
	int before = hx_nspawns;
	ev_run(hx_ctx->loop, EVRUN_NOWAIT);
	/* The real loop starts its next iteration at once and only then blocks in poll().  That next
	 * iteration is where libev acts on echsd's ev_loop_fork() (it re-creates its timerfd and calls
	 * every task's reschedule callback with a freshly read clock).  Run it now, hx_drift seconds
	 * later (the time the daemon spent handling the wake-up), not at the next TICK; and again if
	 * that iteration spawned something itself. */
	for (int last = before, rounds = 0; rounds < 8; rounds++) {
		int spawned = hx_nspawns > last;
		last = hx_nspawns;
		if (spawned) {
			hx_now += hx_drift;
		}
		ev_run(hx_ctx->loop, EVRUN_NOWAIT);
		if (!spawned && hx_nspawns == last) {
			break;
		}
	}
	/* earlier VTODOs of this iteration were collected by hx_pipe(), the last one is still pending */
	if (hx_nspawns > before) {
		hx_collect_vtodo(&hx_spawns[hx_nspawns - 1]);
	}
	return hx_nspawns - before;
}

/* what an uninitialised local of a later call will read: a fixed pattern instead of whatever was there */
static void __attribute__((noinline))
hx_poison_stack(void)
{
	volatile unsigned char pad[16384];
	for (size_t i = 0; i < sizeof(pad); i++) {
		pad[i] = 0x5a;
	}
}

static int
hx_tick(double to)
{
	if (to > hx_now) {
		hx_now = to;
	}
	if (hx_pipe_fail || hx_spawn_fail) {
		hx_poison_stack();
	}
	return hx_iterate();
}

/* deliver the exit of live child I (index into hx_chld) with wait status ST, then iterate */
static int
hx_exit_child(int i, int st)
{
	ev_child *c = hx_chld[i];
	c->rpid = c->pid;
	c->rstatus = st;
	ev_feed_event(hx_ctx->loop, c, EV_CHILD);
	return hx_iterate();
}

/* The exit of live child I is noticed in the same loop iteration in which the clock reaches TO.  libev learns about
 * exits from a signal watcher of the highest priority whose callback queues the child watchers' events; these land
 * behind the periodics' events of that iteration and are therefore invoked before them.  A check watcher of the
 * highest priority reproduces that order. */
static ev_check hx_chk;
static ev_child *hx_pend_exit;
static int hx_pend_st;

static void
hx_chk_cb(struct ev_loop *loop, ev_check *w, int revents)
{
	(void)w, (void)revents;
	if (hx_pend_exit != NULL) {
		ev_child *c = hx_pend_exit;
		hx_pend_exit = NULL;
		c->rpid = c->pid;
		c->rstatus = hx_pend_st;
		ev_feed_event(loop, c, EV_CHILD);
	}
}

static int
hx_tick_exit(double to, int i, int st)
{
	if (hx_chk.cb == NULL) {
		ev_check_init(&hx_chk, hx_chk_cb);
		ev_set_priority(&hx_chk, EV_MAXPRI);
	}
	if (!ev_is_active(&hx_chk)) {
		ev_check_start(hx_ctx->loop, &hx_chk);
	}
	if (to > hx_now) {
		hx_now = to;
	}
	hx_pend_exit = hx_chld[i];
	hx_pend_st = st;
	return hx_iterate();
}

/* the clock reaches TO; while that iteration is under way (signals already looked at) live child I exits.  libev
 * collects it in the next iteration -- unless the daemon has waited for it behind libev's back; returns 1 then */
static int
hx_tick_then_exit(double to, int i, int st)
{
	ev_child *c = hx_chld[i];
	if (to > hx_now) {
		hx_now = to;
	}
	hx_unreaped = c;
	hx_stolen = 0;
	hx_iterate();
	if (!hx_stolen) {
		hx_unreaped = NULL;
		c->rpid = c->pid;
		c->rstatus = st;
		ev_feed_event(hx_ctx->loop, c, EV_CHILD);
		hx_iterate();
		return 0;
	}
	return 1;
}

/* live child I is stopped (SIGSTOP) or continued: libev tells a watcher about that only when it was set up with the
 * trace flag; the job is still alive afterwards */
static int
hx_stop_child(int i, int cont)
{
	ev_child *c = hx_chld[i];
	if (!c->flags) {
		/* not traced: nothing reaches the daemon */
		return 0;
	}
	c->rpid = c->pid;
	c->rstatus = cont ? 0xffff : 0x137f;	/* WIFCONTINUED / WIFSTOPPED by SIGSTOP */
	ev_feed_event(hx_ctx->loop, c, EV_CHILD);
	return hx_iterate();
}

/* ================= clients ================= */
struct hx_reply_s {
	char buf[16384];
	size_t len;
	int nsucc, nfail;	/* REQUEST-STATUS 2.x / other */
	int http;		/* HTTP status, 0 if none */
};

/* the next request's client goes away before the daemon answers: the daemon's write fails with EPIPE (the daemon
 * proper catches SIGPIPE and does nothing; here it is ignored), nothing is collected */
static int hx_client_gone;

/* send REQ as user U through the daemon's own connection handler, collect the reply */
static void
hx_request(struct hx_reply_s *rp, uid_t u, const char *req, size_t len)
{
	int sv[2];
	struct echs_conn_s *c;

	memset(rp, 0, sizeof(*rp));
	if (socketpair(AF_UNIX, SOCK_STREAM, 0, sv) < 0) {
		perror("socketpair");
		_exit(4);
	}
	/* the request, then EOF on our side */
	for (size_t o = 0; o < len;) {
		ssize_t w = (ssize_t)syscall(SYS_write, (long)sv[0], (long)(req + o), (long)(len - o), 0L, 0L, 0L);
		if (w <= 0) break;
		o += (size_t)w;
	}
	shutdown(sv[0], SHUT_WR);
	if (hx_client_gone) {
		signal(SIGPIPE, SIG_IGN);
		syscall(SYS_close, (long)sv[0], 0L, 0L, 0L, 0L, 0L);
	}
	c = make_conn();
	/* what get_peereuid() delivers: the bare ids of the peer, whether or not the user data base knows them */
	{
		const int keep = hx_pw_fail_in;
		hx_pw_fail_in = 0;
		ncred_t cr = compl_uid(u);
		hx_pw_fail_in = keep;
		c->cred = cr.u != NOT_A_UID ? cr : (ncred_t){u, u};
	}
	ev_io_init(&c->r, sock_data_cb, sv[1], EV_READ);
	/* what the loop does when the socket is readable: once per recv() until the handler shuts it */
	for (int i = 0; i < 8 && c->r.fd == sv[1] && c->buf != NULL; i++) {
		sock_data_cb(hx_ctx->loop, &c->r, EV_READ);
	}
	if (hx_client_gone) {
		hx_client_gone = 0;
		return;
	}
	/* drain the reply */
	for (;;) {
		ssize_t r = (ssize_t)syscall(SYS_read, (long)sv[0], (long)(rp->buf + rp->len), (long)(sizeof(rp->buf) - 1 - rp->len), 0L, 0L, 0L);
		if (r <= 0) break;
		rp->len += (size_t)r;
		if (rp->len >= sizeof(rp->buf) - 1) break;
	}
	rp->buf[rp->len] = '\0';
	syscall(SYS_close, (long)sv[0], 0L, 0L, 0L, 0L, 0L);
	for (const char *p = rp->buf; (p = strstr(p, "REQUEST-STATUS:")); p += 15) {
		if (p[15] == '2') rp->nsucc++; else rp->nfail++;
	}
	if (!strncmp(rp->buf, "HTTP/1.1 ", 9)) {
		rp->http = atoi(rp->buf + 9);
	}
}

/* a connection in two halves: the peer connects (the daemon hands it a connection slot and notes its credentials,
 * as sock_conn_cb() does after accept()), and only later sends its request and reads the reply; any number of peers
 * may be connected in between */
struct hx_conn_s {
	int sv[2];
	struct echs_conn_s *c;
	uid_t u;
	int refused;
};

static void
hx_conn_open(struct hx_conn_s *h, uid_t u)
{
	memset(h, 0, sizeof(*h));
	h->u = u;
	if (socketpair(AF_UNIX, SOCK_STREAM, 0, h->sv) < 0) {
		perror("socketpair");
		_exit(4);
	}
	if ((h->c = make_conn()) == NULL) {
		/* too many concurrent connections: the daemon closes the accepted socket */
		syscall(SYS_close, (long)h->sv[1], 0L, 0L, 0L, 0L, 0L);
		syscall(SYS_close, (long)h->sv[0], 0L, 0L, 0L, 0L, 0L);
		h->refused = 1;
		return;
	}
	{
		ncred_t cr = compl_uid(u);
		h->c->cred = cr.u != NOT_A_UID ? cr : (ncred_t){u, u};
	}
	ev_io_init(&h->c->r, sock_data_cb, h->sv[1], EV_READ);
}

static void
hx_conn_finish(struct hx_conn_s *h, struct hx_reply_s *rp, const char *req, size_t len)
{
	memset(rp, 0, sizeof(*rp));
	for (size_t o = 0; o < len;) {
		ssize_t w = (ssize_t)syscall(SYS_write, (long)h->sv[0], (long)(req + o), (long)(len - o), 0L, 0L, 0L);
		if (w <= 0) break;
		o += (size_t)w;
	}
	shutdown(h->sv[0], SHUT_WR);
	/* the loop calls the watcher that was started for this peer's socket */
	for (int i = 0; i < 8 && h->c->r.fd == h->sv[1] && h->c->buf != NULL; i++) {
		sock_data_cb(hx_ctx->loop, &h->c->r, EV_READ);
	}
	{
		/* never wait for a reply that nobody is going to write */
		int fl = fcntl(h->sv[0], F_GETFL);
		fcntl(h->sv[0], F_SETFL, fl | O_NONBLOCK);
	}
	for (;;) {
		ssize_t r = (ssize_t)syscall(SYS_read, (long)h->sv[0], (long)(rp->buf + rp->len), (long)(sizeof(rp->buf) - 1 - rp->len), 0L, 0L, 0L);
		if (r <= 0) break;
		rp->len += (size_t)r;
		if (rp->len >= sizeof(rp->buf) - 1) break;
	}
	rp->buf[rp->len] = '\0';
	syscall(SYS_close, (long)h->sv[0], 0L, 0L, 0L, 0L, 0L);
	for (const char *q = rp->buf; (q = strstr(q, "REQUEST-STATUS:")); q += 15) {
		if (q[15] == '2') rp->nsucc++; else rp->nfail++;
	}
}

/* ================= observation ================= */
#define HX_MAXTASKS	300
#define HX_MAXOCC	6
struct hx_task_s {
	char uid[64];
	unsigned owner;
	int nocc;
	double occ[HX_MAXOCC];	/* remaining occurrences as the stream would deliver them (peeked on a clone) */
	double at;		/* libev's armed time */
	int active;		/* periodic watcher active */
	int resched_null;
	int cb_unsched;
	size_t nsim;
	int nrun_pos;
	unsigned maxsimul;
	int slot;		/* index of the _task_s in its pool, identity for slot-reuse checks */
	_task_t ptr;
};

static int
hx_cmp_task(const void *a, const void *b)
{
	return strcmp(((const struct hx_task_s*)a)->uid, ((const struct hx_task_s*)b)->uid);
}

static int
hx_observe(struct hx_task_s *out)
{
	int n = 0;
	for (size_t i = 0; i < ztask_ht && n < HX_MAXTASKS; i++) {
		if (!task_ht[i].oid) continue;
		_task_t t = task_ht[i].t;
		struct hx_task_s *o = &out[n++];
		const char *nm = obint_name(task_ht[i].oid);
		memset(o, 0, sizeof(*o));
		snprintf(o->uid, sizeof(o->uid), "%s", nm ? nm : "?");
		o->owner = (unsigned)echs_task_owner(t->t);
		o->at = ev_periodic_at(&t->w);
		o->active = ev_is_active(&t->w);
		o->resched_null = t->w.reschedule_cb == NULL;
		o->cb_unsched = t->w.cb == unsched;
		o->nsim = t->nsim;
		o->nrun_pos = t->nrun > 0;
		o->maxsimul = t->t->max_simul;
		o->ptr = t;
		o->slot = (int)(((uintptr_t)t >> 4) & 0xffff);
		if (t->t->strm) {
			echs_evstrm_t cl = clone_echs_evstrm(t->t->strm);
			if (cl) {
				for (; o->nocc < HX_MAXOCC; o->nocc++) {
					echs_event_t e = echs_evstrm_pop(cl);
					if (echs_nul_event_p(e)) break;
					o->occ[o->nocc] = instant_to_tstamp(e.from);
				}
				free_echs_evstrm(cl);
			}
		}
	}
	qsort(out, (size_t)n, sizeof(*out), hx_cmp_task);
	return n;
}

/* FNV-1a */
static uint64_t
hx_hash(uint64_t h, const void *p, size_t n)
{
	const unsigned char *s = p;
	for (size_t i = 0; i < n; i++) {
		h ^= s[i];
		h *= 1099511628211ULL;
	}
	return h;
}

static uint64_t
hx_spool_hash(uint64_t h)
{
	/* order-independent over files */
	uint64_t acc = 0;
	for (int i = 0; i < HX_NFILES; i++) {
		if (!hx_files[i].live) continue;
		uint64_t f = 14695981039346656037ULL;
		f = hx_hash(f, hx_files[i].name, strlen(hx_files[i].name));
		/* DTSTAMP lines change with the clock but carry no meaning: skip them */
		const char *d = hx_files[i].data;
		size_t len = hx_files[i].len;
		for (size_t o = 0; o < len;) {
			const char *eol = memchr(d + o, '\n', len - o);
			size_t ll = eol ? (size_t)(eol - (d + o)) + 1 : len - o;
			if (!(ll > 8 && !memcmp(d + o, "DTSTAMP:", 8))) {
				f = hx_hash(f, d + o, ll);
			}
			o += ll;
		}
		acc += f;
	}
	return hx_hash(h, &acc, sizeof(acc));
}

/* one complete calendar?  balanced BEGIN/END, nothing before the first BEGIN or behind the END that closes it */
static int
hx_complete_ical(const char *d, size_t len)
{
	int depth = 0, sawcal = 0;
	size_t o = 0;
	if (!len) return 0;
	if (d[len - 1] != '\n') return 0;
	while (o < len) {
		const char *eol = memchr(d + o, '\n', len - o);
		size_t ll = eol ? (size_t)(eol - (d + o)) : len - o;
		if (ll >= 6 && !memcmp(d + o, "BEGIN:", 6)) {
			depth++;
			if (ll >= 15 && !memcmp(d + o, "BEGIN:VCALENDAR", 15)) sawcal = 1;
		} else if (ll >= 4 && !memcmp(d + o, "END:", 4)) {
			depth--;
			if (depth < 0) return 0;
			if (depth == 0 && o + ll + 1 < len) {
				/* something follows the end of the calendar */
				return 0;
			}
		} else if (depth == 0) {
			/* a line outside any component */
			return 0;
		}
		o += ll + 1;
	}
	return sawcal && depth == 0;
}
#endif
