/* e2_explore.c -- explicit-state exploration of echsd (C04, C11, C12) over the real code.
 *
 * A state is reached by a history of events applied to the embedded daemon (hx.h).  The explorer
 * forks at every state once per enabled event; the child applies the event, checks the oracle
 * against the reference model (DESIGN.md appendix B), canonicalises the state, and recurses if the
 * state was not seen before with at least as much depth left.  Each vdrv case is one depth-2 prefix;
 * everything below it is explored exhaustively to --opt depth=N.
 *
 * --opt prop=C04|C11|C12   alphabet + oracle set
 * --opt depth=N
 */
#include "vdrv.h"
#include "hx.h"
#include <sys/prctl.h>
#include <sched.h>

/* ---------------- model ---------------- */
#define M_MAXT	4
#define M_MAXOCC 8

struct mtask_s {
	int present;
	char uid[64];
	unsigned owner;
	int nocc;
	double occ[M_MAXOCC];
	int next;		/* first occurrence not yet consumed */
	int limit;		/* 0 = unset */
	int running;		/* executions alive (real runs only) */
	int fired;		/* ever fired */
	int zombie;		/* loaded without any future occurrence: never runs, goes when time moves on */
	double loaded_at;
	int tpl;
	int gen;		/* incarnation: a cancelled and re-added UID is a new task, a replaced one is not */
	int linger_ok;		/* its last start failed (injected fault): whether it is ever retired is left open */
};

struct model_s {
	struct mtask_s t[M_MAXT];
	/* live executions in spawn order: which model task they belong to (by uid), -1 = task gone */
	int nchld;
	struct {
		char uid[64];
		int pid;
		int gen;
	} chld[HX_MAXCHLD];
	int nextgen;
};

static struct model_s M;
static char hist[1400];
static int prop;		/* 4, 11, 12 */
static int maxdepth = 4;
static int pruned_violation;	/* a violation was found in this state: do not explore below it */

/* shared across the whole case: visited table + counters */
#define VT_BITS	21
#define VT_SIZE	(1UL << VT_BITS)
struct vt_s {
	uint64_t key[VT_SIZE];
	uint8_t depthleft[VT_SIZE];
	long states, transitions, traces, pruned, outcomes;
	int nscratch;
	int scratch[96][5];
};
static struct vt_s *VT;

/* ---------------- task templates ---------------- */
struct tpl_s {
	const char *name;
	int kind;		/* 0: DTSTART (+ RDATE list of all instants when nocc > 1), 1: SECONDLY rule */
	int nocc;
	int off[M_MAXOCC];	/* seconds relative to T0 */
	int interval;
	int limit;
};

/* T0 = 2030-01-01T00:00:00Z unless --opt t0=<epoch> */
static const struct tpl_s tpls[] = {
	{"oneshot+2", 0, 1, {2}, 0, 0},
	{"rdate+2+4", 0, 2, {2, 4}, 0, 0},
	{"sec2x3", 1, 3, {2, 4, 6}, 2, 0},
	{"past", 1, 2, {-10, -9}, 1, 0},
	{"straddle", 1, 3, {-1, 2, 5}, 3, 0},
	/* C12 templates: many occurrences, with limits */
	{"sec1x6/lim1", 1, 6, {1, 2, 3, 4, 5, 6}, 1, 1},
	{"sec1x6/lim2", 1, 6, {1, 2, 3, 4, 5, 6}, 1, 2},
	{"sec1x6/unset", 1, 6, {1, 2, 3, 4, 5, 6}, 1, 0},
	{"sec1x6/lim62", 1, 6, {1, 2, 3, 4, 5, 6}, 1, 62},
	/* MAX-SIMUL:0 (limit -1 here, 0 means unset): every occurrence is reported as not run, nothing is ever watched */
	{"sec1x3/lim0", 1, 3, {1, 2, 3}, 1, -1},
	/* kind 2: SECONDLY;INTERVAL=2;COUNT=6 from +2 with EXDATEs at +4 and +8: excluded occurrences are never run */
	{"sec2x6-ex2", 2, 4, {2, 6, 10, 12}, 2, 0},
	/* kind 3: SECONDLY;INTERVAL=2;COUNT=3 from +2 plus RDATE +4,+5,+9: +4 is named by both sources (delivered once), +9 by the dates only */
	{"sec2x3+rdate", 3, 5, {2, 4, 5, 6, 9}, 2, 0},
};

static size_t
tpl_stamp(char *buf, size_t bsz, double t)
{
	/* own civil conversion (days-from-civil inverse), nothing of the code under test */
	long z = (long)(t / 86400.0), sod = (long)(t - (double)z * 86400.0);
	long era, doe, yoe, doy, mp, d, m, y;
	z += 719468;
	era = (z >= 0 ? z : z - 146096) / 146097;
	doe = z - era * 146097;
	yoe = (doe - doe / 1460 + doe / 36524 - doe / 146096) / 365;
	y = yoe + era * 400;
	doy = doe - (365 * yoe + yoe / 4 - yoe / 100);
	mp = (5 * doy + 2) / 153;
	d = doy - (153 * mp + 2) / 5 + 1;
	m = mp < 10 ? mp + 3 : mp - 9;
	y += m <= 2;
	return (size_t)snprintf(buf, bsz, "%04ld%02ld%02ldT%02ld%02ld%02ldZ", y, m, d, sod / 3600, sod / 60 % 60, sod % 60);
}

static const char*
tpl_body(const struct tpl_s *tp)
{
	static char body[512];
	char st[32];
	size_t o = 0;
	tpl_stamp(st, sizeof(st), HX_T0 + tp->off[0]);
	o += (size_t)snprintf(body + o, sizeof(body) - o, "DTSTART:%s\n", st);
	if (tp->kind == 0 && tp->nocc > 1) {
		o += (size_t)snprintf(body + o, sizeof(body) - o, "RDATE:");
		for (int i = 0; i < tp->nocc; i++) {
			tpl_stamp(st, sizeof(st), HX_T0 + tp->off[i]);
			o += (size_t)snprintf(body + o, sizeof(body) - o, "%s%s", i ? "," : "", st);
		}
		o += (size_t)snprintf(body + o, sizeof(body) - o, "\n");
	} else if (tp->kind == 1) {
		o += (size_t)snprintf(body + o, sizeof(body) - o, "RRULE:FREQ=SECONDLY;INTERVAL=%d;COUNT=%d\n", tp->interval, tp->nocc);
	} else if (tp->kind == 3) {
		char x1[32], x2[32], x3[32];
		tpl_stamp(x1, sizeof(x1), HX_T0 + 4);
		tpl_stamp(x2, sizeof(x2), HX_T0 + 5);
		tpl_stamp(x3, sizeof(x3), HX_T0 + 9);
		o += (size_t)snprintf(body + o, sizeof(body) - o, "RRULE:FREQ=SECONDLY;INTERVAL=2;COUNT=3\nRDATE:%s,%s,%s\n", x1, x2, x3);
	} else if (tp->kind == 2) {
		char x1[32], x2[32];
		tpl_stamp(x1, sizeof(x1), HX_T0 + 4);
		tpl_stamp(x2, sizeof(x2), HX_T0 + 8);
		o += (size_t)snprintf(body + o, sizeof(body) - o, "RRULE:FREQ=SECONDLY;INTERVAL=2;COUNT=6\nEXDATE:%s,%s\n", x1, x2);
	}
	if (tp->limit) {
		o += (size_t)snprintf(body + o, sizeof(body) - o, "X-ECHS-MAX-SIMUL:%d\n", tp->limit < 0 ? 0 : tp->limit);
	}
	return body;
}
#define NTPL	((int)(sizeof(tpls) / sizeof(*tpls)))

static unsigned users[] = {1000, 1001, 0};	/* --opt user2=N replaces the second (2000..2099 exist besides) */
/* Task oids are 32-bit hashes of the UID.  For C11 the second UID is searched at start-up so that its hash
 * agrees with the first one's in the low 6..10 bits (the 16-slot table then has to grow by much more than
 * double), and the third so that it sits in another slot of the small table but has hash bits between
 * the old and the new table size */
static char uidbuf[3][24] = {"A", "B", "CC"};
static const char *const uids[] = {uidbuf[0], uidbuf[1], uidbuf[2]};

static void
pick_colliding_uids(void)
{
	const uint32_t ha = (uint32_t)obint("A", 1);
	int ctz = 0;
	for (int i = 0; i < 2000000; i++) {
		char tmp[24];
		int n = snprintf(tmp, sizeof(tmp), "B%d", i);
		uint32_t h = (uint32_t)obint(tmp, (size_t)n);
		uint32_t d = h ^ ha;
		if (d && __builtin_ctz(d) >= 6 && __builtin_ctz(d) <= 10) {
			snprintf(uidbuf[1], sizeof(uidbuf[1]), "%s", tmp);
			ctz = __builtin_ctz(d);
			break;
		}
	}
	for (int i = 0; ctz && i < 2000000; i++) {
		char tmp[24];
		int n = snprintf(tmp, sizeof(tmp), "C%d", i);
		uint32_t h = (uint32_t)obint(tmp, (size_t)n);
		if ((h & 15U) != (ha & 15U) && ((h >> 5) & ((1U << (ctz - 4)) - 1U))) {
			snprintf(uidbuf[2], sizeof(uidbuf[2]), "%s", tmp);
			break;
		}
	}
}

/* ---------------- events ---------------- */
enum {E_ADD, E_CANCEL, E_TICK_ONTIME, E_TICK_IDLE, E_TICK_LATE, E_EXIT, E_LIST, E_SCHED, E_ADDOWN, E_ADD2, E_TICK_EXACT, E_TICK_FAIL, E_STOP, E_TICKX, E_ADDGONE, E_ADDANON, E_ADDVANISH, E_ADDNOID, E_ADDREV, E_TICKY};
struct ev_s {
	int kind;
	int user;	/* index into users[] */
	int uid;	/* index into uids[] */
	int arg;	/* template / k / child index / owner variant */
	int arg2;
};

static struct mtask_s*
m_find(const char *uid)
{
	for (int i = 0; i < M_MAXT; i++) {
		if (M.t[i].present && !strcmp(M.t[i].uid, uid)) return &M.t[i];
	}
	return NULL;
}

/* tasks the model retired in the step under way: their last start is still to be matched */
static int just_retired[M_MAXT];

static struct mtask_s*
m_find_started(const char *uid)
{
	struct mtask_s *t = m_find(uid);
	for (int i = 0; t == NULL && i < M_MAXT; i++) {
		if (just_retired[i] && !strcmp(M.t[i].uid, uid)) t = &M.t[i];
	}
	return t;
}

static struct mtask_s*
m_new(const char *uid)
{
	for (int i = 0; i < M_MAXT; i++) {
		if (!M.t[i].present) {
			memset(&M.t[i], 0, sizeof(M.t[i]));
			M.t[i].present = 1;
			M.t[i].gen = ++M.nextgen;
			snprintf(M.t[i].uid, sizeof(M.t[i].uid), "%s", uid);
			return &M.t[i];
		}
	}
	return NULL;
}

static double
m_earliest(void)
{
	double best = 1e300;
	for (int i = 0; i < M_MAXT; i++) {
		struct mtask_s *t = &M.t[i];
		if (t->present && !t->zombie && t->next < t->nocc && t->occ[t->next] < best) best = t->occ[t->next];
	}
	return best;
}

static void
report(const char *clause, const char *shape, const char *fmt, ...)
{
	char sig[200], msg[1024];
	va_list ap;
	va_start(ap, fmt);
	vsnprintf(msg, sizeof(msg), fmt, ap);
	va_end(ap);
	snprintf(sig, sizeof(sig), "%s/%s", clause, shape);
	vd_desc("%s", hist);
	vd_viol(sig, "%s", msg);
	pruned_violation = 1;
}

static const char*
evname(char *buf, size_t bsz, const struct ev_s *e)
{
	switch (e->kind) {
	case E_ADD: snprintf(buf, bsz, "ADD(%u,%s,%s)", users[e->user], uids[e->uid], tpls[e->arg].name); break;
	case E_ADDOWN: snprintf(buf, bsz, "ADD(%u,%s,%s,owner=%s)", users[e->user], uids[e->uid], tpls[e->arg].name, e->arg2 == 1 ? "self" : e->arg2 == 2 ? "other" : e->arg2 == 3 ? "self-by-name" : e->arg2 == 4 ? "other-by-name" : "uid-without-passwd-entry"); break;
	case E_ADD2: snprintf(buf, bsz, "ADD2(%u,%s+%s,%s)", users[e->user], uids[e->uid], uids[e->arg2], tpls[e->arg].name); break;
	case E_ADDGONE: snprintf(buf, bsz, "ADD(%u,%s,%s; the client is gone before the reply)", users[e->user], uids[e->uid], tpls[e->arg].name); break;
	case E_ADDANON: snprintf(buf, bsz, "ADD(peer 4242 whom the user data base does not know,%s,owner=%s)", uids[e->uid], e->arg2 == 0 ? "absent" : e->arg2 == 1 ? "1000" : "alice"); break;
	case E_ADDVANISH: snprintf(buf, bsz, "ADD(%u,%s,%s; the user data base fails at look-up %d of the request)", users[e->user], uids[e->uid], tpls[e->arg].name, e->arg2); break;
	case E_ADDNOID: snprintf(buf, bsz, "ADD(%u, an event with neither UID nor SUMMARY)", users[e->user]); break;
	case E_ADDREV: snprintf(buf, bsz, "ADD(%u,%s: two revisions in one request, past then oneshot+2)", users[e->user], uids[e->uid]); break;
	case E_CANCEL: snprintf(buf, bsz, "CANCEL(%u,%s)", users[e->user], uids[e->uid]); break;
	case E_TICK_ONTIME: snprintf(buf, bsz, "TICK(on-time)"); break;
	case E_TICK_IDLE: snprintf(buf, bsz, "TICK(idle)"); break;
	case E_TICK_EXACT: snprintf(buf, bsz, "TICK(exact)"); break;
	case E_TICK_FAIL: snprintf(buf, bsz, "TICK(on-time, %s)", e->arg ? "posix_spawn() fails with EAGAIN" : "pipe() fails with EMFILE"); break;
	case E_TICK_LATE: snprintf(buf, bsz, "TICK(late-%d)", e->arg); break;
	case E_EXIT: snprintf(buf, bsz, e->arg2 ? "KILLED(%d)" : "EXIT(%d)", e->arg); break;
	case E_STOP: snprintf(buf, bsz, "STOP+CONT(%d)", e->arg); break;
	case E_TICKX: snprintf(buf, bsz, "TICK(on-time)+EXIT(%d) in one loop iteration", e->arg); break;
	case E_TICKY: snprintf(buf, bsz, "TICK(on-time) while job %d exits (collected by libev an iteration later)", e->arg); break;
	case E_LIST: snprintf(buf, bsz, "LIST(%u%s%s%s)", users[e->user], e->arg == 1 ? " as other" : "", e->arg2 ? " ?tuid=" : "", e->arg2 ? uids[e->arg2 - 1] : ""); break;
	case E_SCHED: snprintf(buf, bsz, "SCHED(%u%s%s)", users[e->user], e->arg2 ? " ?tuid=" : "", e->arg2 ? uids[e->arg2 - 1] : ""); break;
	}
	return buf;
}

static const char*
evkind(const struct ev_s *e)
{
	static const char *const k[] = {"ADD", "CANCEL", "TICK-ontime", "TICK-idle", "TICK-late", "EXIT", "LIST", "SCHED", "ADDOWN", "ADD2", "TICK-exact", "TICK-spawnfail", "STOP", "TICK+EXIT", "ADD-client-gone", "ADD-unknown-peer", "ADD-userdb-fails", "ADD-nameless", "ADD-two-revisions", "TICK-then-EXIT"};
	return k[e->kind];
}

/* ---------------- enabled events ---------------- */
static int narrow;	/* --opt alpha=narrow | narrow2 (2: a second UID with MAX-SIMUL 1) */
static int collide;	/* --opt uids=collide: C04 with the three UIDs C11 uses (hashes that make the table grow by more than double) */

static int
enabled(struct ev_s *ev, int max)
{
	int n = 0;
	const int nusers = prop == 11 ? 2 : 1;
	const int nuids = prop == 11 ? 3 : (collide && (prop == 4 || prop == 12)) ? 3 : (narrow == 1 && prop == 4) ? 1 : 2;

#define PUSH(...)	do { if (n < max) ev[n++] = (struct ev_s){__VA_ARGS__}; } while (0)
	/* clock events first: they are the simplest */
	double e = m_earliest();
	int zombies = 0, armed = 0;
	for (int i = 0; i < M_MAXT; i++) {
		zombies += M.t[i].present && M.t[i].zombie;
		armed += M.t[i].present && !M.t[i].zombie && M.t[i].next < M.t[i].nocc;
	}
	if ((armed || zombies) && !(prop == 11 && narrow)) {
		PUSH(E_TICK_ONTIME);
	}
	if (armed && (prop == 12 || (prop == 4 && narrow))) {
		/* deviation: the start of the one task that is due fails before a child exists */
		int ndue = 0;
		for (int i = 0; i < M_MAXT; i++) {
			struct mtask_s *t = &M.t[i];
			ndue += t->present && !t->zombie && t->next < t->nocc && t->occ[t->next] == e;
		}
		if (ndue == 1) {
			PUSH(E_TICK_FAIL, 0, 0, 0);
			PUSH(E_TICK_FAIL, 0, 0, 1);
		}
	}
	if (armed && e - hx_now > 0.75 && !narrow) {
		PUSH(E_TICK_IDLE);
	}
	if (armed && e > hx_now && prop == 4 && !narrow) {
		/* wake up exactly on the second of the next occurrence: it is not due yet (strictly before) */
		PUSH(E_TICK_EXACT);
	}
	if (armed && prop != 11 && !narrow) {
		/* the task due first, k further occurrences */
		for (int i = 0; i < M_MAXT; i++) {
			struct mtask_s *t = &M.t[i];
			if (t->present && !t->zombie && t->next < t->nocc && t->occ[t->next] == e) {
				if (t->next + 1 < t->nocc) PUSH(E_TICK_LATE, 0, 0, 1);
				if (t->next + 2 < t->nocc) PUSH(E_TICK_LATE, 0, 0, 2);
				break;
			}
		}
	}
	/* child exits; children of one task in the same state are interchangeable, take the oldest of each task */
	for (int i = 0; i < M.nchld; i++) {
		int dup = 0;
		for (int j = 0; j < i; j++) dup |= !strcmp(M.chld[j].uid, M.chld[i].uid) && M.chld[j].gen == M.chld[i].gen;
		if (!dup || prop == 12) PUSH(E_EXIT, 0, 0, i);
		/* the executor itself is killed (OOM, an administrator): its slot is free again all the same */
		if (!dup && prop == 12) PUSH(E_EXIT, 0, 0, i, 1);
		/* the exit is noticed in the very iteration in which the next occurrence comes due */
		if (!dup && armed && prop != 11) PUSH(E_TICKX, 0, 0, i);
		/* ... or just behind libev's look at its signals: the job is gone, libev hears of it an iteration later */
		if (!dup && armed && prop == 12) PUSH(E_TICKY, 0, 0, i);
		/* deviation: the job is stopped and continued (job control, a debugger); it is still running */
		if (!dup && prop == 12) PUSH(E_STOP, 0, 0, i);
	}
	/* commands */
	for (int u = 0; u < nusers; u++) {
		for (int k = 0; k < nuids; k++) {
			if (prop == 4 && collide) {
				/* three UIDs whose hashes force the table-growth path, one schedule each */
				PUSH(E_ADD, u, k, k == 2 ? 2 : 0);
			} else if (prop == 4 && narrow && k == 1) {
				/* narrow2: the second UID has six occurrences a second apart and MAX-SIMUL 1, so that
				 * starts with the no-run flag happen legitimately next to the first UID's plain starts */
				PUSH(E_ADD, u, k, 5);
			} else if (prop == 4 && narrow) {
				/* one UID, two short schedules, on-time wake-ups only: room for long histories */
				PUSH(E_ADD, u, k, 1);
				PUSH(E_ADD, u, k, 2);
				PUSH(E_ADD, u, k, 10);
				PUSH(E_ADD, u, k, 11);
			} else if (prop == 4) {
				for (int tp = 0; tp < 5; tp++) PUSH(E_ADD, u, k, tp);
				if (k == 0) PUSH(E_ADD, u, k, 10);
				if (k == 0) PUSH(E_ADD, u, k, 11);
			} else if (prop == 12 && collide) {
				/* three UIDs whose hashes force the table-growth path: limits 2, 1 and none */
				PUSH(E_ADD, u, k, k == 0 ? 6 : k == 1 ? 5 : 7);
			} else if (prop == 12 && narrow) {
				/* X = uid A with limit 2, Y = uid B with limit 1, on-time wake-ups only */
				PUSH(E_ADD, u, k, k == 0 ? 6 : 5);
			} else if (prop == 12) {
				/* X = uid A with limit variants, Y = uid B unset or 1 */
				if (k == 0) {
					PUSH(E_ADD, u, k, 5);
					PUSH(E_ADD, u, k, 6);
					PUSH(E_ADD, u, k, 7);
					PUSH(E_ADD, u, k, 9);
				} else {
					PUSH(E_ADD, u, k, 7);
					PUSH(E_ADD, u, k, 5);
				}
			} else if (prop == 11 && narrow) {
				/* adds and listings only: room for the longer histories that the per-user checkpoint bookkeeping needs */
				PUSH(E_ADD, u, k, 0);
				/* ... and an add whose sender does not wait for the answer */
				if (k == 0) PUSH(E_ADDGONE, u, k, 0);
				/* ... and one during which the user data base stops answering (first or second look-up) */
				if (k == 0 && u == 0) {
					PUSH(E_ADDVANISH, u, k, 0, 1);
					PUSH(E_ADDVANISH, u, k, 0, 2);
				}
			} else {
				PUSH(E_ADD, u, k, 0);
				PUSH(E_ADD, u, k, 2);
				/* a task with nothing to come: it must be gone at once, whatever the slot it got has seen before */
				if (k == 0) PUSH(E_ADD, u, k, 3);
				PUSH(E_ADDOWN, u, k, 0, 1);
				PUSH(E_ADDOWN, u, k, 0, 2);
				if (k == 0) {
					/* the owner written as a user name, and as a number no user has */
					PUSH(E_ADDOWN, u, k, 0, 3);
					PUSH(E_ADDOWN, u, k, 0, 4);
					PUSH(E_ADDOWN, u, k, 0, 5);
				}
			}
			if ((prop == 11 && !narrow) || (prop != 11 && m_find(uids[k]))) {
				PUSH(E_CANCEL, u, k);
			}
		}
		if (prop == 11) {
			/* an event that has no UID and nothing to make one from: it cannot be told from an empty slot, listed or
			 * cancelled, so it must not be taken on */
			PUSH(E_ADDNOID, u, 0, 0);
		}
		if (prop == 11 && u == 0) {
			/* a peer whose uid the user data base does not know: whatever owner it names, nothing of it is accepted */
			for (int k = 0; k < (narrow ? 1 : 2); k++) {
				PUSH(E_ADDANON, 0, k, 0, 0);
				PUSH(E_ADDANON, 0, k, 0, 1);
				if (!narrow) PUSH(E_ADDANON, 0, k, 0, 2);
			}
		}
		if (prop == 11 && narrow) {
			PUSH(E_LIST, u, 0, 0);
		} else if (prop == 11) {
			PUSH(E_ADD2, u, 0, 0, 1);
			PUSH(E_LIST, u, 0, 0);
			PUSH(E_LIST, u, 0, 1);
			PUSH(E_SCHED, u);
			/* the same asked for one UID (what echsq list/next TUID send), own or not */
			for (int k = 0; k < 3; k++) {
				if (m_find(uids[k])) {
					PUSH(E_LIST, u, 0, 0, 1 + k);
					PUSH(E_SCHED, u, 0, 0, 1 + k);
				}
			}
			/* two revisions of one UID in one request: the first all in the past, the second to come */
			PUSH(E_ADDREV, u, 0, 0);
		}
	}
	if (prop == 11 && !narrow) {
		/* root may list */
		PUSH(E_LIST, 2, 0, 0);
	}
#undef PUSH
	return n;
}

/* ---------------- requests ---------------- */
static size_t
mk_add(char *buf, size_t bsz, const char *uid, const struct tpl_s *tp, const char *ownerline, size_t off)
{
	return off + (size_t)snprintf(buf + off, bsz - off, "BEGIN:VEVENT\nUID:%s\nSUMMARY:job-%s\n%s%sEND:VEVENT\n", uid, uid, tpl_body(tp), ownerline);
}

/* model: load template into task */
static void
m_load(struct mtask_s *t, const struct tpl_s *tp, unsigned owner, int tpi)
{
	t->owner = owner;
	t->nocc = tp->nocc;
	for (int i = 0; i < tp->nocc; i++) t->occ[i] = HX_T0 + tp->off[i];
	t->limit = tp->limit;
	t->loaded_at = hx_now;
	t->tpl = tpi;
	/* occurrences before the load time are never run */
	t->next = 0;
	while (t->next < t->nocc && t->occ[t->next] < hx_now) t->next++;
	t->zombie = t->next >= t->nocc;
	t->linger_ok = 0;
	/* a replaced task's executions keep running, they still count against the limit */
}

/* ---------------- the oracle on a state ---------------- */
static void
check_state(const struct ev_s *e, int spawn_from, const int *exp_spawn /* per model task slot: expected spawns this step */,
	    const int *exp_nd)
{
	struct hx_task_s obs[HX_MAXTASKS];
	int nobs = hx_observe(obs);
	char shape[96];
	const char *k = evkind(e);

	/* spawns of this step */
	int got[M_MAXT] = {0};
	for (int s = spawn_from; s < hx_nspawns; s++) {
		struct hx_spawn_s *sp = &hx_spawns[s];
		struct mtask_s *t = m_find_started(sp->uid);
		int ti = t ? (int)(t - M.t) : -1;
		if (!sp->vtodo_ok) {
			snprintf(shape, sizeof(shape), "after=%s", k);
			report("spawn-garbled", shape, "spawn %d at +%.3f: the execution request is not a complete VTODO", s, sp->at - HX_T0);
			continue;
		}
		if (ti < 0) {
			snprintf(shape, sizeof(shape), "after=%s", k);
			report("spawn-unknown", shape, "spawn for UID %s which is not queued", sp->uid);
			continue;
		}
		got[ti]++;
		if (!exp_spawn[ti]) {
			const char *why = t->zombie ? "task-without-future-occurrence" : t->next >= t->nocc ? "exhausted" : "not-due";
			snprintf(shape, sizeof(shape), "%s/after=%s", why, k);
			report("spawn-unexpected", shape, "task %s spawned at +%.3f but nothing is due (next occurrence %s)", t->uid, sp->at - HX_T0,
			       t->next < t->nocc ? "in the future" : "none");
		} else if (got[ti] > exp_spawn[ti]) {
			snprintf(shape, sizeof(shape), "after=%s", k);
			report("spawn-twice", shape, "task %s spawned %d times in one wake-up", t->uid, got[ti]);
		} else {
			if (sp->nd != exp_nd[ti]) {
				snprintf(shape, sizeof(shape), "%s/limit=%s/after=%s", sp->nd ? "norun-but-below-limit" : "run-at-limit",
					 t->limit < 0 ? "0" : t->limit == 0 ? "unset" : t->limit == 1 ? "1" : t->limit == 2 ? "2" : "N", k);
				report("spawn-mode", shape, "task %s (limit %d, %d running): spawned %s", t->uid, t->limit, t->running,
				       sp->nd ? "with the no-run flag" : "for real");
			}
			if (sp->setuid != t->owner) {
				snprintf(shape, sizeof(shape), "after=%s", k);
				report("spawn-setuid", shape, "task %s owned by %u spawned with SETUID %u", t->uid, t->owner, sp->setuid);
			}
		}
	}
	for (int i = 0; i < M_MAXT; i++) {
		/* (the model may have retired the task already: an unstarted last occurrence leaves nothing running) */
		if (exp_spawn[i] > got[i]) {
			snprintf(shape, sizeof(shape), "limit=%s/after=%s%s", M.t[i].limit == 0 ? "unset" : "set", k, hx_drift > 0 ? "/drift" : "");
			report("spawn-missing", shape, "task %s has an occurrence due (+%.0f) but was not started", M.t[i].uid,
			       M.t[i].occ[M.t[i].next > 0 ? M.t[i].next - 1 : 0] - HX_T0);
		}
	}
	/* the table */
	for (int i = 0; i < M_MAXT; i++) {
		struct mtask_s *t = &M.t[i];
		struct hx_task_s *o = NULL;
		if (!t->present) continue;
		for (int j = 0; j < nobs; j++) {
			if (!strcmp(obs[j].uid, t->uid)) o = &obs[j];
		}
		if (o == NULL && (t->zombie || (t->next >= t->nocc && t->fired))) {
			/* a task with nothing left to run may be dropped as early as the daemon likes */
			continue;
		}
		if (o == NULL) {
			snprintf(shape, sizeof(shape), "after=%s", k);
			report("task-lost", shape, "task %s should be queued but is not in the daemon's table", t->uid);
			continue;
		}
		if (o->owner != t->owner) {
			snprintf(shape, sizeof(shape), "after=%s", k);
			report("task-owner", shape, "task %s owner %u, expected %u", t->uid, o->owner, t->owner);
		}
		if (!t->zombie && t->next < t->nocc) {
			if (o->at != t->occ[t->next]) {
				snprintf(shape, sizeof(shape), "%s/after=%s", o->at > 1e20 ? "never" : o->at < t->occ[t->next] ? "early" : "late", k);
				report("armed-time", shape, "task %s armed for +%.3f, next occurrence is +%.0f", t->uid, o->at - HX_T0, t->occ[t->next] - HX_T0);
			}
			int rem = t->nocc - t->next;
			int bad = o->nocc != (rem < HX_MAXOCC ? rem : HX_MAXOCC);
			for (int q = 0; !bad && q < o->nocc; q++) bad |= o->occ[q] != t->occ[t->next + q];
			if (bad) {
				snprintf(shape, sizeof(shape), "after=%s", k);
				report("remaining", shape, "task %s: stream holds %d occurrences, expected %d from +%.0f", t->uid, o->nocc, rem, t->occ[t->next] - HX_T0);
			}
		}
	}
	for (int j = 0; j < nobs; j++) {
		if (!m_find(obs[j].uid)) {
			snprintf(shape, sizeof(shape), "%s/after=%s", obs[j].nocc ? "armed" : "exhausted", k);
			report("task-lingers", shape, "task %s is still in the daemon's table (armed +%.3g, %d occurrences left, nsim %zu) but should be gone",
			       obs[j].uid, obs[j].at - HX_T0, obs[j].nocc, obs[j].nsim);
		}
	}
}

/* ---------------- apply one event to daemon and model ---------------- */
static void
apply(const struct ev_s *e)
{
	char name[96];
	int exp_spawn[M_MAXT] = {0}, exp_nd[M_MAXT] = {0};
	int s0 = hx_nspawns;
	char req[4096];
	struct hx_reply_s rp;
	char shape[96];
	const char *k = evkind(e);
	int tickx_hi = -1, ticky_hi = -1, ticky_ci = -1;

	memset(just_retired, 0, sizeof(just_retired));
	evname(name, sizeof(name), e);
	snprintf(hist + strlen(hist), sizeof(hist) - strlen(hist), "%s%s", hist[0] ? " " : "", name);
	vd_desc("%s", hist);
	if (getenv("E2_TRACE")) {
		fprintf(stderr, "%s\n", hist);
	}

	switch (e->kind) {
	case E_ADD:
	case E_ADDGONE:
	case E_ADDOWN:
	case E_ADD2: {
		const unsigned u = users[e->user];
		size_t o = (size_t)snprintf(req, sizeof(req), "BEGIN:VCALENDAR\nVERSION:2.0\nMETHOD:PUBLISH\n");
		char ol[48] = "";
		unsigned ownfld = u;
		int nins = 1;
		int lenient = 0;
		if (e->kind == E_ADDOWN) {
			const unsigned other = u == 1000 ? 1001 : 1000;
			ownfld = (e->arg2 == 1 || e->arg2 == 3) ? u : other;
			if (e->arg2 <= 2) {
				snprintf(ol, sizeof(ol), "X-ECHS-OWNER:%u\n", ownfld);
			} else if (e->arg2 <= 4) {
				snprintf(ol, sizeof(ol), "X-ECHS-OWNER:%s\n", ownfld == 1000 ? "alice" : "bob");
			} else {
				/* names nobody: refusing it or taking it for the submitter are both defensible,
				 * what is accepted must be the submitter's in every respect */
				snprintf(ol, sizeof(ol), "X-ECHS-OWNER:4242\n");
				ownfld = u;
				lenient = 1;
			}
		}
		o = mk_add(req, sizeof(req), uids[e->uid], &tpls[e->arg], ol, o);
		if (e->kind == E_ADD2) {
			o = mk_add(req, sizeof(req), uids[e->arg2], &tpls[e->arg], ol, o);
			nins = 2;
		}
		o += (size_t)snprintf(req + o, sizeof(req) - o, "END:VCALENDAR\n");
		hx_client_gone = e->kind == E_ADDGONE;
		hx_request(&rp, u, req, o);
		/* model */
		int expsucc = 0, expfail = 0;
		for (int q = 0; q < nins; q++) {
			const char *uid = q ? uids[e->arg2] : uids[e->uid];
			struct mtask_s *t = m_find(uid);
			if (ownfld != u) {
				expfail++;
			} else if (t && t->owner != u) {
				expfail++;
			} else if (lenient && rp.nsucc == 0 && rp.nfail == 1) {
				expfail++;
			} else {
				if (t == NULL) t = m_new(uid);
				m_load(t, &tpls[e->arg], u, e->arg);
				expsucc++;
			}
		}
		if (e->kind == E_ADDGONE) {
			/* nobody is there to read a reply */
			;
		} else if (rp.nsucc != expsucc || rp.nfail != expfail) {
			snprintf(shape, sizeof(shape), "%s/%s", k, rp.nsucc + rp.nfail != nins ? "count" : rp.nsucc > expsucc ? "accepted" : "refused");
			report("reply", shape, "%d instruction(s): %d success / %d failure replies, expected %d / %d", nins, rp.nsucc, rp.nfail, expsucc, expfail);
		} else {
			/* every reply is about the task the instruction named */
			for (int q = 0; q < nins; q++) {
				char pat[96];
				snprintf(pat, sizeof(pat), "\nUID:%s\n", q ? uids[e->arg2] : uids[e->uid]);
				if (strstr(rp.buf, pat) == NULL) {
					const char *u = strstr(rp.buf, "\nUID:");
					snprintf(shape, sizeof(shape), "%s", k);
					report("reply-uid", shape, "the reply to the request about %s names %.*s", q ? uids[e->arg2] : uids[e->uid], u ? (int)strcspn(u + 1, "\r\n") : 8, u ? u + 1 : "no UID");
					break;
				}
			}
		}
		break;
	}
	case E_ADDVANISH: {
		const unsigned u = users[e->user];
		struct mtask_s *t = m_find(uids[e->uid]);
		size_t o = (size_t)snprintf(req, sizeof(req), "BEGIN:VCALENDAR\nVERSION:2.0\nMETHOD:PUBLISH\n");
		o = mk_add(req, sizeof(req), uids[e->uid], &tpls[e->arg], "", o);
		o += (size_t)snprintf(req + o, sizeof(req) - o, "END:VCALENDAR\n");
		hx_pw_fail_in = e->arg2;
		hx_request(&rp, u, req, o);
		hx_pw_fail_in = 0;
		/* one reply; refused is what one expects, accepted is fine too if the daemon got its answer in time;
		 * either way the table must be consistent with the reply */
		if (rp.nsucc + rp.nfail != 1) {
			snprintf(shape, sizeof(shape), "%s/count", k);
			report("reply", shape, "%d success / %d failure replies to one instruction", rp.nsucc, rp.nfail);
		} else if (rp.nsucc == 1) {
			if (t && t->owner != u) {
				snprintf(shape, sizeof(shape), "%s/accepted", k);
				report("reply", shape, "accepted although the UID belongs to another user");
			} else {
				if (t == NULL) t = m_new(uids[e->uid]);
				m_load(t, &tpls[e->arg], u, e->arg);
			}
		} else if (t && t->owner == u) {
			/* a refused replacement: the old task stays or goes, the property does not say; follow the daemon */
			struct hx_task_s obs[HX_MAXTASKS];
			int nobs = hx_observe(obs), seen = 0;
			for (int j = 0; j < nobs; j++) seen |= !strcmp(obs[j].uid, t->uid);
			if (!seen) t->present = 0;
		}
		break;
	}
	case E_ADDREV: {
		const unsigned u = users[e->user];
		struct mtask_s *t = m_find(uids[e->uid]);
		size_t o = (size_t)snprintf(req, sizeof(req), "BEGIN:VCALENDAR\nVERSION:2.0\nMETHOD:PUBLISH\n");
		o = mk_add(req, sizeof(req), uids[e->uid], &tpls[3], "", o);
		o = mk_add(req, sizeof(req), uids[e->uid], &tpls[0], "", o);
		o += (size_t)snprintf(req + o, sizeof(req) - o, "END:VCALENDAR\n");
		hx_request(&rp, u, req, o);
		{
			const int ok = t == NULL || t->owner == u;
			if (rp.nsucc != (ok ? 2 : 0) || rp.nfail != (ok ? 0 : 2)) {
				snprintf(shape, sizeof(shape), "%s/%s", k, rp.nsucc + rp.nfail != 2 ? "count" : rp.nsucc ? "accepted" : "refused");
				report("reply", shape, "two revisions of %s by %u: %d success / %d failure replies, expected %s", uids[e->uid], u, rp.nsucc, rp.nfail, ok ? "2 successes" : "2 failures");
			}
			if (ok) {
				if (t == NULL) t = m_new(uids[e->uid]);
				m_load(t, &tpls[0], u, 0);
			}
		}
		break;
	}
	case E_ADDNOID: {
		const unsigned u = users[e->user];
		char st[32];
		size_t o;
		tpl_stamp(st, sizeof(st), HX_T0 + 2);
		o = (size_t)snprintf(req, sizeof(req), "BEGIN:VCALENDAR\nVERSION:2.0\nMETHOD:PUBLISH\nBEGIN:VEVENT\nDTSTART:%s\nEND:VEVENT\nEND:VCALENDAR\n", st);
		hx_request(&rp, u, req, o);
		/* model: nothing changes; a task nobody can name would show as lingering in the table check below */
		if (rp.nsucc != 0 || rp.nfail > 1) {
			snprintf(shape, sizeof(shape), "%s/%s", k, rp.nsucc ? "accepted" : "count");
			report("reply", shape, "event without UID and SUMMARY: %d success / %d failure replies, expected it to be refused", rp.nsucc, rp.nfail);
		}
		/* whatever the reply says, it does not name somebody else's task */
		for (int q = 0; q < 3; q++) {
			char pat[96];
			struct mtask_s *t = m_find(uids[q]);
			snprintf(pat, sizeof(pat), "\nUID:%s\n", uids[q]);
			if (t && t->owner != u && strstr(rp.buf, pat)) {
				snprintf(shape, sizeof(shape), "%s", k);
				report("reply-leak", shape, "the reply to %u's nameless event names %s, a task of user %u", u, uids[q], t->owner);
				break;
			}
		}
		break;
	}
	case E_ADDANON: {
		size_t o = (size_t)snprintf(req, sizeof(req), "BEGIN:VCALENDAR\nVERSION:2.0\nMETHOD:PUBLISH\n");
		o = mk_add(req, sizeof(req), uids[e->uid], &tpls[0], e->arg2 == 0 ? "" : e->arg2 == 1 ? "X-ECHS-OWNER:1000\n" : "X-ECHS-OWNER:alice\n", o);
		o += (size_t)snprintf(req + o, sizeof(req) - o, "END:VCALENDAR\n");
		hx_request(&rp, 4242, req, o);
		/* model: nothing changes; the table is compared below */
		if (rp.nsucc != 0 || rp.nfail != 1) {
			snprintf(shape, sizeof(shape), "%s/%s", k, rp.nsucc + rp.nfail != 1 ? "count" : "accepted");
			report("reply", shape, "request of a peer unknown to the user data base: %d success / %d failure replies, expected one failure", rp.nsucc, rp.nfail);
		}
		break;
	}
	case E_CANCEL: {
		const unsigned u = users[e->user];
		size_t o = (size_t)snprintf(req, sizeof(req), "BEGIN:VCALENDAR\nVERSION:2.0\nMETHOD:CANCEL\nBEGIN:VEVENT\nUID:%s\nEND:VEVENT\nEND:VCALENDAR\n", uids[e->uid]);
		struct mtask_s *t = m_find(uids[e->uid]);
		int ok = t && t->owner == u;
		hx_request(&rp, u, req, o);
		/* a task with nothing left to run may have been dropped already: either answer is right */
		int optional = ok && (t->zombie || (t->next >= t->nocc && t->fired));
		if (optional && rp.nsucc + rp.nfail == 1) {
			;
		} else if (rp.nsucc != ok || rp.nfail != !ok) {
			snprintf(shape, sizeof(shape), "%s/%s", k, rp.nsucc + rp.nfail != 1 ? "count" : rp.nsucc ? "accepted" : "refused");
			report("reply", shape, "cancel of %s by %u: %d success / %d failure replies, expected %s", uids[e->uid], u, rp.nsucc, rp.nfail, ok ? "success" : "failure");
		}
		if (ok) {
			/* executions of a cancelled task keep running but belong to nobody */
			t->present = 0;
		}
		break;
	}
	case E_LIST:
	case E_SCHED: {
		const unsigned u = users[e->user];
		size_t o;
		if (e->arg2) {
			o = (size_t)snprintf(req, sizeof(req), "GET /%s?tuid=%s HTTP/1.1\r\n\r\n", e->kind == E_SCHED ? "sched" : "queue", uids[e->arg2 - 1]);
		} else if (e->kind == E_SCHED) {
			o = (size_t)snprintf(req, sizeof(req), "GET /sched HTTP/1.1\r\n\r\n");
		} else if (e->arg == 1) {
			o = (size_t)snprintf(req, sizeof(req), "GET /u/%u/queue HTTP/1.1\r\n\r\n", u == 1000 ? 1001 : 1000);
		} else if (u == 0) {
			o = (size_t)snprintf(req, sizeof(req), "GET /u/1000/queue HTTP/1.1\r\n\r\n");
		} else {
			o = (size_t)snprintf(req, sizeof(req), "GET /queue HTTP/1.1\r\n\r\n");
		}
		hx_request(&rp, u, req, o);
		/* whose view may this be?  the caller's own; root asked for 1000's */
		const unsigned view = u == 0 ? 1000 : u;
		for (int q = 0; q < 3; q++) {
			char pat[32];
			struct mtask_s *t = m_find(uids[q]);
			int listed;
			if (e->kind == E_SCHED) {
				snprintf(pat, sizeof(pat), "%s\t", uids[q]);
				listed = !strncmp(rp.buf + (strstr(rp.buf, "\r\n\r\n") ? strstr(rp.buf, "\r\n\r\n") - rp.buf + 4 : 0), pat, strlen(pat)) ||
					({char p2[34]; snprintf(p2, sizeof(p2), "\n%s\t", uids[q]); strstr(rp.buf, p2) != NULL;});
			} else {
				snprintf(pat, sizeof(pat), "\nUID:%s\n", uids[q]);
				listed = strstr(rp.buf, pat) != NULL;
			}
			if (listed && (t == NULL || t->owner != view)) {
				snprintf(shape, sizeof(shape), "%s/%s", k, t == NULL ? "stale" : "foreign");
				report("list-leak", shape, "reply to %u lists %s which %s", u, uids[q], t ? "belongs to another user" : "is not queued");
			} else if (!listed && t && t->owner == view && !(e->kind == E_LIST && e->arg == 1) && (!e->arg2 || e->arg2 - 1 == q) &&
				   /* an exhausted task has nothing left to show in the queue file */
				   (e->kind == E_SCHED || (!t->zombie && t->next < t->nocc))) {
				snprintf(shape, sizeof(shape), "%s", k);
				report("list-missing", shape, "reply to %u (http %d) does not list its task %s", u, rp.http, uids[q]);
			}
		}
		break;
	}
	case E_TICKX: {
		/* model: the exit is seen first (libev invokes the child watcher before the periodic) */
		int ci = e->arg;
		int pid = M.chld[ci].pid;
		struct mtask_s *t = m_find(M.chld[ci].uid);
		for (int q = 0; q < hx_nchld; q++) {
			if (hx_chld[q]->pid == pid) tickx_hi = q;
		}
		if (t && t->gen == M.chld[ci].gen && t->running > 0) t->running--;
		memmove(&M.chld[ci], &M.chld[ci + 1], sizeof(M.chld[0]) * (size_t)(M.nchld - ci - 1));
		M.nchld--;
		if (tickx_hi < 0) {
			snprintf(shape, sizeof(shape), "after=%s", k);
			report("child-unwatched", shape, "execution %d is not watched by the daemon", pid);
			break;
		}
	}
		/*@fallthrough@*/
	case E_TICKY:
		if (e->kind == E_TICKY) {
			ticky_ci = e->arg;
			for (int q = 0; q < hx_nchld; q++) {
				if (hx_chld[q]->pid == M.chld[ticky_ci].pid) ticky_hi = q;
			}
			if (ticky_hi < 0) {
				snprintf(shape, sizeof(shape), "after=%s", k);
				report("child-unwatched", shape, "execution %d is not watched by the daemon", M.chld[ticky_ci].pid);
				break;
			}
		}
		/*@fallthrough@*/
	case E_TICK_ONTIME:
	case E_TICK_IDLE:
	case E_TICK_EXACT:
	case E_TICK_FAIL:
	case E_TICK_LATE: {
		double to;
		double ear = m_earliest();
		if (e->kind == E_TICK_ONTIME || e->kind == E_TICK_FAIL || e->kind == E_TICKX || e->kind == E_TICKY) {
			to = ear < 1e299 ? ear + 0.001 : hx_now + 1.0;
			if (to <= hx_now) to = hx_now + 0.001;
		} else if (e->kind == E_TICK_IDLE) {
			to = ear - 0.5;
		} else if (e->kind == E_TICK_EXACT) {
			to = ear;
		} else {
			to = hx_now;
			for (int i = 0; i < M_MAXT; i++) {
				struct mtask_s *t = &M.t[i];
				if (t->present && !t->zombie && t->next < t->nocc && t->occ[t->next] == ear) {
					to = t->occ[t->next + e->arg] + 0.5;
					break;
				}
			}
		}
		/* model: what is due strictly before TO; a wake-up that started something is followed by
		 * another look at the clock hx_drift later, where the same rule applies */
		const double tick_to = to;
		for (int round = 0; round < 8; round++) {
			int any = 0;
			for (int i = 0; i < M_MAXT; i++) {
				struct mtask_s *t = &M.t[i];
				if (!t->present) continue;
				if (t->zombie) {
					/* goes as soon as time moves past its load time */
					if (to > t->loaded_at) t->present = 0;
					continue;
				}
				if (t->next < t->nocc && t->occ[t->next] < to) {
					while (t->next < t->nocc && t->occ[t->next] < to) t->next++;
					/* the limit is judged against what runs when this start happens */
					if (e->kind == E_TICK_FAIL) {
						/* the occurrence is used up, nothing comes into being */
						t->fired = 1;
						/* (if that was the last occurrence and nothing of the task runs, it has to go) */
						any = 1;
						continue;
					}
					if (!exp_spawn[i]) {
						exp_nd[i] = t->limit < 0 || (t->limit && t->running >= t->limit);
					}
					exp_spawn[i]++;
					t->fired = 1;
					any = 1;
				}
			}
			if (!any || hx_drift <= 0) break;
			to += hx_drift;
		}
		hx_pipe_fail = e->kind == E_TICK_FAIL && e->arg == 0;
		hx_spawn_fail = e->kind == E_TICK_FAIL && e->arg == 1;
		if (tickx_hi >= 0) {
			hx_tick_exit(tick_to, tickx_hi, 0);
		} else if (ticky_hi >= 0) {
			const int pid = M.chld[ticky_ci].pid;
			const int stolen = hx_tick_then_exit(tick_to, ticky_hi, 0);
			/* model: the tick saw the job still running, now it is gone */
			struct mtask_s *t = m_find(M.chld[ticky_ci].uid);
			if (t && t->gen == M.chld[ticky_ci].gen && t->running > 0) t->running--;
			memmove(&M.chld[ticky_ci], &M.chld[ticky_ci + 1], sizeof(M.chld[0]) * (size_t)(M.nchld - ticky_ci - 1));
			M.nchld--;
			if (stolen) {
				snprintf(shape, sizeof(shape), "after=%s", k);
				report("child-stolen", shape, "the daemon itself waited for execution %d: libev will never hear of its exit, the task's count of running jobs stays up", pid);
			}
		} else {
			hx_tick(tick_to);
		}
		hx_pipe_fail = hx_spawn_fail = 0;
		break;
	}
	case E_STOP: {
		/* which watched child is that */
		const int pid = M.chld[e->arg].pid;
		for (int q = 0; q < hx_nchld; q++) {
			if (hx_chld[q]->pid == pid) {
				hx_stop_child(q, 0);
				/* the watcher may be gone now (that is the defect); continue only if it is still there */
				for (int q2 = 0; q2 < hx_nchld; q2++) {
					if (hx_chld[q2]->pid == pid) { hx_stop_child(q2, 1); break; }
				}
				break;
			}
		}
		/* model: nothing changes */
		break;
	}
	case E_EXIT: {
		/* the daemon's child list is in spawn order like the model's */
		int ci = e->arg;
		int pid = M.chld[ci].pid, hi = -1;
		for (int q = 0; q < hx_nchld; q++) {
			if (hx_chld[q]->pid == pid) hi = q;
		}
		struct mtask_s *t = m_find(M.chld[ci].uid);
		if (t && t->gen == M.chld[ci].gen && t->running > 0) t->running--;
		memmove(&M.chld[ci], &M.chld[ci + 1], sizeof(M.chld[0]) * (size_t)(M.nchld - ci - 1));
		M.nchld--;
		if (hi < 0) {
			snprintf(shape, sizeof(shape), "after=%s", k);
			report("child-unwatched", shape, "execution %d is not watched by the daemon", pid);
		} else {
			hx_exit_child(hi, e->arg2 ? 9 : 0);
		}
		break;
	}
	}
	/* model: register the executions started in this step (real runs only) */
	for (int s = s0; s < hx_nspawns; s++) {
		struct mtask_s *t = m_find(hx_spawns[s].uid);
		if (hx_spawns[s].nd) continue;
		if (M.nchld < HX_MAXCHLD) {
			snprintf(M.chld[M.nchld].uid, sizeof(M.chld[0].uid), "%s", hx_spawns[s].uid);
			M.chld[M.nchld].pid = hx_spawns[s].pid;
			M.chld[M.nchld].gen = t ? t->gen : 0;
			M.nchld++;
		}
		if (t) t->running++;
	}
	/* model: retire tasks that are exhausted, have fired and have no execution left */
	for (int i = 0; i < M_MAXT; i++) {
		struct mtask_s *t = &M.t[i];
		if (t->present && !t->zombie && t->next >= t->nocc && t->fired && t->running == 0 && !t->linger_ok) {
			t->present = 0;
			just_retired[i] = 1;
		}
	}
	check_state(e, s0, exp_spawn, exp_nd);
	/* the daemon must stay able to hear of its jobs' exits */
	{
		sigset_t cur;
		if (sigprocmask(SIG_BLOCK, NULL, &cur) == 0 && sigismember(&cur, SIGCHLD) && !pruned_violation) {
			snprintf(shape, sizeof(shape), "after=%s", k);
			report("sigchld-blocked", shape, "SIGCHLD is blocked when the daemon goes back to its loop: no exit of a job is noticed any more");
			sigdelset(&cur, SIGCHLD);
			sigprocmask(SIG_SETMASK, &cur, NULL);
		}
	}
	/* a task with nothing left to run may be dropped whenever the daemon likes: follow it */
	{
		struct hx_task_s obs[HX_MAXTASKS];
		int nobs = hx_observe(obs);
		for (int i = 0; i < M_MAXT; i++) {
			struct mtask_s *t = &M.t[i];
			int seen = 0;
			if (!t->present || !(t->zombie || (t->next >= t->nocc && t->fired))) continue;
			for (int j = 0; j < nobs; j++) seen |= !strcmp(obs[j].uid, t->uid);
			if (!seen) t->present = 0;
		}
	}
	/* every real execution must be watched (else its exit is never noticed) */
	for (int c = 0; c < M.nchld; c++) {
		int w = 0;
		for (int q = 0; q < hx_nchld; q++) w |= hx_chld[q]->pid == M.chld[c].pid;
		if (!w && !pruned_violation) {
			struct mtask_s *t = m_find(M.chld[c].uid);
			snprintf(shape, sizeof(shape), "limit=%s/after=%s", !t ? "gone" : t->limit == 0 ? "unset" : t->limit == 1 ? "1" : "N", k);
			report("run-unsupervised", shape, "execution %d of task %s runs for real but the daemon does not watch it", M.chld[c].pid, M.chld[c].uid);
		}
	}
}

/* ---------------- canonical state ---------------- */
static uint64_t
canon(void)
{
	struct hx_task_s obs[HX_MAXTASKS];
	int nobs = hx_observe(obs);
	uint64_t h = 14695981039346656037ULL;
	double rel = hx_now - HX_T0;

	h = hx_hash(h, &rel, sizeof(rel));
	for (int i = 0; i < nobs; i++) {
		struct hx_task_s *o = &obs[i];
		h = hx_hash(h, o->uid, strlen(o->uid) + 1);
		h = hx_hash(h, &o->owner, sizeof(o->owner));
		h = hx_hash(h, &o->nocc, sizeof(o->nocc));
		h = hx_hash(h, o->occ, sizeof(double) * (size_t)o->nocc);
		h = hx_hash(h, &o->at, sizeof(o->at));
		h = hx_hash(h, &o->active, sizeof(o->active));
		h = hx_hash(h, &o->resched_null, sizeof(o->resched_null));
		h = hx_hash(h, &o->cb_unsched, sizeof(o->cb_unsched));
		h = hx_hash(h, &o->nsim, sizeof(o->nsim));
		h = hx_hash(h, &o->nrun_pos, sizeof(o->nrun_pos));
		h = hx_hash(h, &o->maxsimul, sizeof(o->maxsimul));
	}
	/* live children: which task currently occupies the slot they point to */
	{
		char tags[HX_MAXCHLD][160];
		for (int c = 0; c < hx_nchld; c++) {
			const char *occ = "dangling";
			for (int i = 0; i < nobs; i++) {
				if ((void*)obs[i].ptr == hx_chld[c]->data) occ = obs[i].uid;
			}
			/* a slot nobody occupies is either held back for this child or already up for reuse:
			 * the next ADD behaves differently */
			{
				/* bounded: a slot released twice makes the list cyclic */
				int guard = 0;
				for (_task_t f = free_tasks; f != NULL && guard < 4096; f = f->next, guard++) {
					if ((void*)f == hx_chld[c]->data) occ = "freed";
				}
			}
			const char *spawner = "?";
			for (int q = 0; q < M.nchld; q++) {
				if (M.chld[q].pid == hx_chld[c]->pid) {
					struct mtask_s *t = m_find(M.chld[q].uid);
					spawner = t && t->gen == M.chld[q].gen ? M.chld[q].uid : "old";
				}
			}
			snprintf(tags[c], sizeof(tags[c]), "%s>%s", spawner, occ);
		}
		qsort(tags, (size_t)hx_nchld, sizeof(tags[0]), (int(*)(const void*, const void*))strcmp);
		for (int c = 0; c < hx_nchld; c++) h = hx_hash(h, tags[c], strlen(tags[c]) + 1);
	}
	h = hx_hash(h, &hx_sticky_nd, sizeof(hx_sticky_nd));
	/* dirty users: the list as it is (order and repetitions decide how the index over it is linked), and what the
	 * index answers for each user */
	{
		unsigned d[32];
		size_t nd = ichkpnts < 32 ? ichkpnts : 32;
		for (size_t i = 0; i < nd; i++) d[i] = chkpnts[i].key;
		h = hx_hash(h, d, sizeof(unsigned) * nd);
		for (size_t u = 0; u < sizeof(users) / sizeof(*users); u++) {
			int a = chkpntedp(users[u]);
			h = hx_hash(h, &a, sizeof(a));
		}
	}
	h = hx_spool_hash(h);
	/* the model (it is a function of the history; states are only merged when it agrees too) */
	for (int i = 0; i < M_MAXT; i++) {
		struct mtask_s *t = &M.t[i];
		if (!t->present) continue;
		h = hx_hash(h, t->uid, strlen(t->uid) + 1);
		h = hx_hash(h, &t->next, sizeof(t->next));
		h = hx_hash(h, &t->running, sizeof(t->running));
		h = hx_hash(h, &t->fired, sizeof(t->fired));
		h = hx_hash(h, &t->zombie, sizeof(t->zombie));
		h = hx_hash(h, &t->linger_ok, sizeof(t->linger_ok));
		h = hx_hash(h, &t->loaded_at, sizeof(t->loaded_at));
		h = hx_hash(h, &t->tpl, sizeof(t->tpl));
	}
	{
		char tags[HX_MAXCHLD][160];
		for (int c = 0; c < M.nchld; c++) {
			struct mtask_s *t = m_find(M.chld[c].uid);
			snprintf(tags[c], sizeof(tags[c]), "%s%s", M.chld[c].uid, t && t->gen == M.chld[c].gen ? "" : "(old)");
		}
		qsort(tags, (size_t)M.nchld, sizeof(tags[0]), (int(*)(const void*, const void*))strcmp);
		for (int c = 0; c < M.nchld; c++) h = hx_hash(h, tags[c], strlen(tags[c]) + 1);
	}
	return h ? h : 1;
}

/* returns 1 if the state is new (or seen with less depth left) */
static int
visit(uint64_t key, int depthleft)
{
	size_t i = (size_t)(key & (VT_SIZE - 1));
	for (size_t probes = 0; probes < VT_SIZE; probes++, i = (i + 1) & (VT_SIZE - 1)) {
		if (VT->key[i] == 0) {
			VT->key[i] = key;
			VT->depthleft[i] = (uint8_t)depthleft;
			VT->states++;
			return 1;
		} else if (VT->key[i] == key) {
			if (VT->depthleft[i] >= depthleft) {
				return 0;
			}
			VT->depthleft[i] = (uint8_t)depthleft;
			return 1;
		}
	}
	return 1;
}

/* ---------------- search ---------------- */
static void explore(int depth);

static void
step(const struct ev_s *e, int depth)
{
	pid_t p;
	int st;

	vd_beat();
	fflush(stdout);
	if ((p = fork()) < 0) {
		perror("fork");
		_exit(5);
	} else if (p == 0) {
		prctl(PR_SET_PDEATHSIG, SIGKILL);
		pruned_violation = 0;
		apply(e);
		VT->transitions++;
		if (pruned_violation) {
			VT->pruned++;
			fflush(stdout);
			_exit(0);
		}
		if (visit(canon(), maxdepth - depth - 1)) {
			explore(depth + 1);
		}
		fflush(stdout);
		_exit(0);
	}
	while (waitpid(p, &st, 0) < 0 && errno == EINTR);
	if (!(WIFEXITED(st) && WEXITSTATUS(st) == 0)) {
		/* the daemon died applying this event (or below it) */
		char name[96], sig[160];
		evname(name, sizeof(name), e);
		if (WIFEXITED(st) && WEXITSTATUS(st) == 7) {
			/* already reported further down */
			_exit(7);
		}
		vd_desc("%s %s", hist, name);
		snprintf(sig, sizeof(sig), "crash/after=%s", evkind(e));
		vd_viol(sig, "daemon image died (%s %d) while handling the last event of the history",
			WIFSIGNALED(st) ? "signal" : "exit status", WIFSIGNALED(st) ? WTERMSIG(st) : WEXITSTATUS(st));
		VT->pruned++;
	}
}

static void
explore(int depth)
{
	struct ev_s ev[96];
	int n;

	if (depth >= maxdepth) {
		VT->traces++;
		return;
	}
	n = enabled(ev, 96);
	if (!n) {
		VT->traces++;
		return;
	}
	for (int i = 0; i < n; i++) {
		step(&ev[i], depth);
	}
}

/* C12 linear sweep: for every limit N one history: fill to N, one more (must not run), one exit, one more (must run) */
static void
sweep_limit(int N)
{
	char req[1024], st0[32];
	struct hx_reply_s rp;
	size_t o = (size_t)snprintf(req, sizeof(req),
		"BEGIN:VCALENDAR\nVERSION:2.0\nMETHOD:PUBLISH\nBEGIN:VEVENT\nUID:X\nSUMMARY:job\nDTSTART:%s\n"
		"RRULE:FREQ=SECONDLY;COUNT=80\nX-ECHS-MAX-SIMUL:%d\nEND:VEVENT\nEND:VCALENDAR\n", (tpl_stamp(st0, sizeof(st0), HX_T0 + 1), st0), N);
	char shape[64];

	snprintf(hist, sizeof(hist), "ADD(X, SECONDLY x80, MAX-SIMUL:%d) then %d+1 on-time ticks, EXIT(oldest), one more tick", N, N);
	vd_desc("%s", hist);
	snprintf(shape, sizeof(shape), "sweep/N=%s", N == 1 ? "1" : N == 2 ? "2" : N < 62 ? "3..61" : "62");
	hx_request(&rp, 1000, req, o);
	if (rp.nsucc != 1) {
		report("reply", shape, "task with MAX-SIMUL:%d refused", N);
		return;
	}
	for (int k = 1; k <= N + 1; k++) {
		int before = hx_nspawns;
		hx_tick(HX_T0 + k + 0.001);
		VT->transitions++;
		if (hx_nspawns != before + 1) {
			report("spawn-count", shape, "tick %d of %d: %d spawns instead of 1", k, N + 1, hx_nspawns - before);
			return;
		}
		int want_nd = k > N;
		if (hx_spawns[hx_nspawns - 1].nd != want_nd) {
			report("spawn-mode", shape, "limit %d, %d jobs alive: occurrence %d was started %s", N, k - 1 < N ? k - 1 : N, k,
			       hx_spawns[hx_nspawns - 1].nd ? "with the no-run flag" : "for real");
			return;
		}
	}
	if (hx_nchld != N) {
		report("run-unsupervised", shape, "%d jobs run for real, the daemon watches %d", N, hx_nchld);
		return;
	}
	hx_exit_child(0, 0);
	VT->transitions++;
	{
		int before = hx_nspawns;
		hx_tick(HX_T0 + N + 2 + 0.001);
		VT->transitions++;
		if (hx_nspawns != before + 1 || hx_spawns[hx_nspawns - 1].nd) {
			report("spawn-mode", shape, "limit %d, one of %d jobs has exited: the next occurrence was %s", N, N,
			       hx_nspawns == before ? "not started" : "started with the no-run flag");
			return;
		}
	}
	VT->traces++;
}

/* MAX-SIMUL:0: every occurrence is reported as not run; after the last one the task is gone */
static void
sweep_zero(void)
{
	char req[1024], st0[32];
	struct hx_reply_s rp;
	struct hx_task_s obs[HX_MAXTASKS];
	const char *shape = "sweep/N=0";
	size_t o = (size_t)snprintf(req, sizeof(req),
		"BEGIN:VCALENDAR\nVERSION:2.0\nMETHOD:PUBLISH\nBEGIN:VEVENT\nUID:X\nSUMMARY:job\nDTSTART:%s\n"
		"RRULE:FREQ=SECONDLY;COUNT=4\nX-ECHS-MAX-SIMUL:0\nEND:VEVENT\nEND:VCALENDAR\n", (tpl_stamp(st0, sizeof(st0), HX_T0 + 1), st0));

	snprintf(hist, sizeof(hist), "ADD(X, SECONDLY x4, MAX-SIMUL:0) then 4 on-time ticks and an idle one");
	vd_desc("%s", hist);
	hx_request(&rp, 1000, req, o);
	if (rp.nsucc != 1) {
		report("reply", shape, "task with MAX-SIMUL:0 refused");
		return;
	}
	for (int k = 1; k <= 4; k++) {
		int before = hx_nspawns;
		hx_tick(HX_T0 + k + 0.001);
		VT->transitions++;
		if (hx_nspawns != before + 1 || !hx_spawns[hx_nspawns - 1].nd) {
			report("spawn-mode", shape, "limit 0: occurrence %d was %s", k, hx_nspawns == before ? "not reported at all" : "started for real");
			return;
		}
	}
	if (hx_nchld != 0) {
		report("run-unsupervised", shape, "nothing runs for real, the daemon watches %d jobs", hx_nchld);
		return;
	}
	hx_tick(HX_T0 + 10.0);
	VT->transitions++;
	if (hx_observe(obs) != 0) {
		report("task-lingers", "exhausted/after=sweep-N=0", "the task has had its last occurrence and nothing of it runs, but it is still in the daemon's table");
		return;
	}
	VT->traces++;
}

/* C04 linear history: one task with N occurrences a minute apart is followed to its end, every job ends before
 * the next occurrence; exactly one real start per occurrence, the task is gone afterwards */
static void
long_series(long N)
{
	char req[1024], st0[32], shape[64];
	struct hx_reply_s rp;
	size_t o;

	snprintf(hist, sizeof(hist), "ADD(A, MINUTELY x%ld) then %ld on-time ticks, each job exits before the next", N, N);
	vd_desc("%s", hist);
	snprintf(shape, sizeof(shape), "long-series/N=%ld", N);
	o = (size_t)snprintf(req, sizeof(req), "BEGIN:VCALENDAR\nVERSION:2.0\nMETHOD:PUBLISH\nBEGIN:VEVENT\nUID:A\nSUMMARY:job\nDTSTART:%s\nRRULE:FREQ=MINUTELY;COUNT=%ld\nEND:VEVENT\nEND:VCALENDAR\n",
			     (tpl_stamp(st0, sizeof(st0), HX_T0 + 60), st0), N);
	hx_request(&rp, 1000, req, o);
	if (rp.nsucc != 1) { report("reply", shape, "task refused"); return; }
	for (long k = 1; k <= N; k++) {
		const long before = hx_spawn_total;
		if (!(k & 0x3ff)) vd_beat();
		hx_nspawns = 0;		/* only the running total matters here */
		hx_tick(HX_T0 + 60.0 * (double)k + 0.5);
		VT->transitions++;
		if (hx_spawn_total != before + 1 || hx_last_nd) {
			report("spawn-count", shape, "occurrence %ld of %ld came due: %ld executions were started%s", k, N, hx_spawn_total - before, hx_last_nd ? " (with the no-run flag)" : "");
			return;
		}
		if (hx_nchld != 1) { report("run-unsupervised", shape, "occurrence %ld: the daemon watches %d jobs", k, hx_nchld); return; }
		hx_exit_child(0, 0);
	}
	{
		struct hx_task_s obs[HX_MAXTASKS];
		if (hx_observe(obs)) { report("task-lingers", shape, "after its %ld occurrences and the exit of the last job the task is still in the table", N); return; }
	}
	VT->traces++;
}

/* C11 linear histories with many requests / many UIDs (what the bounded exploration cannot reach by depth) */
static int
busy_add(unsigned u, const char *uid)
{
	char req[512], st0[32];
	struct hx_reply_s rp;
	size_t o = (size_t)snprintf(req, sizeof(req), "BEGIN:VCALENDAR\nVERSION:2.0\nMETHOD:PUBLISH\nBEGIN:VEVENT\nUID:%s\nSUMMARY:job\nDTSTART:%s\nEND:VEVENT\nEND:VCALENDAR\n",
				    uid, (tpl_stamp(st0, sizeof(st0), HX_T0 + 3600), st0));
	hx_request(&rp, u, req, o);
	VT->transitions++;
	return rp.nsucc == 1 && rp.nfail == 0;
}

static int
busy_cancel(unsigned u, const char *uid)
{
	char req[512];
	struct hx_reply_s rp;
	size_t o = (size_t)snprintf(req, sizeof(req), "BEGIN:VCALENDAR\nVERSION:2.0\nMETHOD:CANCEL\nBEGIN:VEVENT\nUID:%s\nEND:VEVENT\nEND:VCALENDAR\n", uid);
	hx_request(&rp, u, req, o);
	VT->transitions++;
	return rp.nsucc == 1 && rp.nfail == 0;
}

static int
busy_find(const char *hay, size_t hz, const char *needle, size_t nz)
{
	for (size_t o = 0; o + nz <= hz; o++) {
		if (hay[o] == needle[0] && !memcmp(hay + o, needle, nz)) return 1;
	}
	return 0;
}

/* number of "UID:" lines in user U's queue file, and whether each of the N names (printf pattern PAT with index) is there */
static int
busy_file_has(unsigned u, const char *pat, int n, int *nuidlines, char *missing, size_t mz)
{
	char fn[48];
	const struct hx_file_s *f = NULL;
	int ok = 1;
	snprintf(fn, sizeof(fn), "echsq_%u.ics", u);
	for (int i = 0; i < HX_NFILES; i++) if (hx_files[i].live && !strcmp(hx_files[i].name, fn)) f = &hx_files[i];
	*nuidlines = 0;
	missing[0] = '\0';
	if (f == NULL) {
		snprintf(missing, mz, "no file %s", fn);
		return n == 0;
	}
	for (size_t o = 0; o + 4 < f->len; o++) {
		if ((o == 0 || f->data[o - 1] == '\n') && !memcmp(f->data + o, "UID:", 4)) (*nuidlines)++;
	}
	for (int i = 0; i < n && ok; i++) {
		char line[96];
		size_t ll = (size_t)snprintf(line, sizeof(line), "\nUID:");
		ll += (size_t)snprintf(line + ll, sizeof(line) - ll, pat, i);
		ll += (size_t)snprintf(line + ll, sizeof(line) - ll, "\n");
		if (!busy_find(f->data, f->len, line, ll)) {
			snprintf(missing, mz, "%.*s", (int)(ll - 7), line + 5);
			ok = 0;
		}
	}
	return ok && *nuidlines == n;
}

static void
busy_mode(int variant)
{
	char uid[64], miss[96], shape[64];
	struct hx_reply_s rp;
	int nl;

	if (variant <= 1) {
		/* 16 acknowledged requests of one user, then one of another (variant 0) or of the same (1), the minutely
		 * checkpoint, then the listing of the user whose request came 17th */
		const unsigned late = variant == 0 ? 1001 : 1000;
		snprintf(hist, sizeof(hist), "16 x ADD(1000, n-<i>), ADD(%u, m-0), checkpoint timer, GET /queue by %u", late, late);
		vd_desc("%s", hist);
		snprintf(shape, sizeof(shape), "busy/17-notes/%s", variant ? "same-user" : "other-user");
		for (int i = 0; i < 16; i++) {
			snprintf(uid, sizeof(uid), "n-%d", i);
			if (!busy_add(1000, uid)) { report("reply", shape, "ADD(1000,%s) refused", uid); return; }
		}
		if (!busy_add(late, "m-0")) { report("reply", shape, "ADD(%u,m-0) refused", late); return; }
		cptim_cb(hx_ctx->loop, NULL, 0);
		VT->transitions++;
		{
			const char *get = "GET /queue HTTP/1.1\r\n\r\n";
			hx_request(&rp, late, get, strlen(get));
			VT->transitions++;
			if (strstr(rp.buf, "\nUID:m-0\n") == NULL) {
				report("list-missing", shape, "after 17 acknowledged requests and a checkpoint, the reply to %u (http %d) does not list its task m-0", late, rp.http);
				return;
			}
		}
		if (!busy_file_has(1000, "n-%d", 16, &nl, miss, sizeof(miss)) && variant == 0) {
			report("queue-file", shape, "user 1000's queue file holds %d UIDs, %s is missing", nl, miss[0] ? miss : "none");
			return;
		}
	} else if (variant == 5) {
		/* long replies: one request with 44 instructions is answered by more than 4096 octets; the first UID grows
		 * by one character per round so that every line of the reply ends on every offset of the writer's buffer
		 * once; every instruction must find its own status line in the reply */
		static char req[8192];
		snprintf(shape, sizeof(shape), "busy/long-replies");
		for (int round = 0; round < 128; round++) {
			char pad[140];
			memset(pad, 'p', (size_t)round);
			pad[round] = '\0';
			for (int phase = 0; phase < 2; phase++) {
				size_t o = (size_t)snprintf(req, sizeof(req), "BEGIN:VCALENDAR\nVERSION:2.0\nMETHOD:%s\n", phase ? "CANCEL" : "PUBLISH");
				char st0[32];
				tpl_stamp(st0, sizeof(st0), HX_T0 + 3600);
				for (int j = 0; j < 44; j++) {
					if (phase) o += (size_t)snprintf(req + o, sizeof(req) - o, "BEGIN:VEVENT\nUID:u%03d-%03d%s\nEND:VEVENT\n", round, j, j ? "" : pad);
					else o += (size_t)snprintf(req + o, sizeof(req) - o, "BEGIN:VEVENT\nUID:u%03d-%03d%s\nSUMMARY:job\nDTSTART:%s\nEND:VEVENT\n", round, j, j ? "" : pad, st0);
				}
				o += (size_t)snprintf(req + o, sizeof(req) - o, "END:VCALENDAR\n");
				snprintf(hist, sizeof(hist), "round %d: one request with 44 ADDs (first UID %d characters long), then one with the 44 CANCELs", round, 8 + round);
				vd_desc("%s", hist);
				hx_request(&rp, 1000, req, o);
				VT->transitions++;
				if (strlen(rp.buf) != rp.len) {
					report("reply", shape, "the reply to 44 %s instructions holds a NUL octet at offset %zu of %zu", phase ? "CANCEL" : "ADD", strlen(rp.buf), rp.len);
					return;
				}
				if (rp.nsucc != 44 || rp.nfail != 0) {
					report("reply", shape, "44 %s instructions: %d success / %d failure replies", phase ? "CANCEL" : "ADD", rp.nsucc, rp.nfail);
					return;
				}
				for (int j = 0; j < 44; j++) {
					char pat[200];
					snprintf(pat, sizeof(pat), "\nUID:u%03d-%03d%s\n", round, j, j ? "" : pad);
					if (strstr(rp.buf, pat) == NULL) {
						report("reply-uid", shape, "the reply to 44 %s instructions does not name instruction %d's UID", phase ? "CANCEL" : "ADD", j + 1);
						return;
					}
				}
			}
		}
	} else if (variant == 4) {
		/* many clients at once: K connections are open at the same time, each has sent the first half of its
		 * request when the others send theirs; every client must get the reply to ITS request and the task
		 * must be filed under ITS uid */
		enum {K = 40};
		static int sv[K][2];
		static struct echs_conn_s *cn[K];
		static char req[K][512];
		static size_t rl[K];
		char st0[32];
		snprintf(hist, sizeof(hist), "%d connections open at once (users 1000 and 1001 alternating), each ADDs conn-<i>; first halves of all requests, then the second halves", K);
		vd_desc("%s", hist);
		snprintf(shape, sizeof(shape), "busy/many-connections");
		tpl_stamp(st0, sizeof(st0), HX_T0 + 3600);
		for (int i = 0; i < K; i++) {
			if (socketpair(AF_UNIX, SOCK_STREAM, 0, sv[i]) < 0) { report("harness", shape, "socketpair"); return; }
			rl[i] = (size_t)snprintf(req[i], sizeof(req[i]), "BEGIN:VCALENDAR\nVERSION:2.0\nMETHOD:PUBLISH\nBEGIN:VEVENT\nUID:conn-%d\nSUMMARY:job\nDTSTART:%s\nEND:VEVENT\nEND:VCALENDAR\n", i, st0);
			if ((cn[i] = make_conn()) == NULL) {
				report("refused", shape, "connection %d of %d is refused (the daemon allows 64)", i + 1, K);
				return;
			}
			for (int j = 0; j < i; j++) {
				if (cn[j] == cn[i]) {
					report("connection-shared", shape, "connection %d (uid %d) is given the slot that connection %d (uid %d) still uses: one buffer, one set of credentials for both clients",
					       i + 1, i & 1 ? 1001 : 1000, j + 1, j & 1 ? 1001 : 1000);
					return;
				}
			}
			/* the client side must not block the harness when the daemon never answers */
			fcntl(sv[i][0], F_SETFL, fcntl(sv[i][0], F_GETFL) | O_NONBLOCK);
			/* as after accept(): the daemon's sockets do not block */
			fcntl(sv[i][1], F_SETFL, fcntl(sv[i][1], F_GETFL) | O_NONBLOCK);
			cn[i]->cred = compl_uid(i & 1 ? 1001 : 1000);
			ev_io_init(&cn[i]->r, sock_data_cb, sv[i][1], EV_READ);
			/* first half */
			(void)syscall(SYS_write, (long)sv[i][0], (long)req[i], (long)(rl[i] / 2), 0L, 0L, 0L);
			sock_data_cb(hx_ctx->loop, &cn[i]->r, EV_READ);
			VT->transitions++;
		}
		for (int i = 0; i < K; i++) {
			char buf[2048];
			size_t bl = 0;
			char want[32];
			int ns = 0;
			(void)syscall(SYS_write, (long)sv[i][0], (long)(req[i] + rl[i] / 2), (long)(rl[i] - rl[i] / 2), 0L, 0L, 0L);
			shutdown(sv[i][0], SHUT_WR);
			for (int q = 0; q < 8 && cn[i]->r.fd == sv[i][1] && cn[i]->buf != NULL; q++) {
				sock_data_cb(hx_ctx->loop, &cn[i]->r, EV_READ);
			}
			VT->transitions++;
			for (;;) {
				ssize_t r = (ssize_t)syscall(SYS_read, (long)sv[i][0], (long)(buf + bl), (long)(sizeof(buf) - 1 - bl), 0L, 0L, 0L);
				if (r <= 0) break;
				bl += (size_t)r;
				if (bl >= sizeof(buf) - 1) break;
			}
			buf[bl] = '\0';
			syscall(SYS_close, (long)sv[i][0], 0L, 0L, 0L, 0L, 0L);
			for (const char *q = buf; (q = strstr(q, "REQUEST-STATUS:2")); q += 15) ns++;
			snprintf(want, sizeof(want), "UID:conn-%d\n", i);
			if (ns != 1 || strstr(buf, want) == NULL) {
				char shown[200];
				const char *u = strstr(buf, "UID:");
				snprintf(shown, sizeof(shown), "%.*s", u ? (int)strcspn(u, "\r\n") : 9, u ? u : "(no UID)");
				report("reply", shape, "client %d of %d (uid %d) asked to add conn-%d and gets %d success replies%s%s", i + 1, K, i & 1 ? 1001 : 1000, i, ns,
				       strstr(buf, want) ? "" : ", none of them for its UID; the reply names ", strstr(buf, want) ? "" : shown);
				return;
			}
		}
		{
			struct hx_task_s obs[HX_MAXTASKS];
			int n = hx_observe(obs);
			if (n != K) { report("task-table", shape, "%d tasks in the table after %d acknowledged adds", n, K); return; }
			for (int j = 0; j < n; j++) {
				const int id = atoi(obs[j].uid + 5);
				if (obs[j].owner != (unsigned)(id & 1 ? 1001 : 1000)) {
					report("owner", shape, "task %s was sent by user %d and is filed under %u", obs[j].uid, id & 1 ? 1001 : 1000, obs[j].owner);
					return;
				}
			}
		}
	} else {
		/* many distinct UIDs in one daemon life */
		const int N = variant == 2 ? 700 : 1500;	/* 700: past the first growth of the UID string table */
		snprintf(hist, sizeof(hist), "%d x ADD(1000, job-<i>@bulk.example), 3 x ADD(1001, few-<i>), checkpoint timer, the files, GET /queue by 1001, then CANCEL of every UID by its owner", N);
		vd_desc("%s", hist);
		snprintf(shape, sizeof(shape), "busy/many-uids");
		for (int i = 0; i < N; i++) {
			snprintf(uid, sizeof(uid), "job-%d@bulk.example", i);
			if (!busy_add(1000, uid)) { report("reply", shape, "ADD(1000,%s) refused", uid); return; }
			if (i % 100 == 99) {
				vd_beat();
				/* keep the change notes below the dump-everybody threshold now and then */
				cptim_cb(hx_ctx->loop, NULL, 0);
			}
		}
		for (int i = 0; i < 3; i++) {
			snprintf(uid, sizeof(uid), "few-%d", i);
			if (!busy_add(1001, uid)) { report("reply", shape, "ADD(1001,%s) refused", uid); return; }
		}
		cptim_cb(hx_ctx->loop, NULL, 0);
		VT->transitions++;
		if (!busy_file_has(1000, "job-%d@bulk.example", N, &nl, miss, sizeof(miss))) {
			report("queue-file", shape, "user 1000 queued %d UIDs, its queue file holds %d UID lines, first one missing: %s", N, nl, miss[0] ? miss : "none");
			return;
		}
		if (!busy_file_has(1001, "few-%d", 3, &nl, miss, sizeof(miss))) {
			report("queue-file", shape, "user 1001 queued 3 UIDs, its queue file holds %d UID lines, first one missing: %s", nl, miss[0] ? miss : "none");
			return;
		}
		{
			const char *get = "GET /queue HTTP/1.1\r\n\r\n";
			hx_request(&rp, 1001, get, strlen(get));
			for (int i = 0; i < 3; i++) {
				char pat[32];
				snprintf(pat, sizeof(pat), "\nUID:few-%d\n", i);
				if (strstr(rp.buf, pat) == NULL) { report("list-missing", shape, "reply to 1001 does not list few-%d", i); return; }
			}
			if (strstr(rp.buf, "bulk.example") != NULL) { report("list-leak", shape, "reply to 1001 lists a task of user 1000"); return; }
		}
		for (int i = 0; i < N; i++) {
			snprintf(uid, sizeof(uid), "job-%d@bulk.example", i);
			if (i % 100 == 0) vd_beat();
			if (!busy_cancel(1000, uid)) { report("reply", shape, "CANCEL(1000,%s) of a queued task refused", uid); return; }
		}
		for (int i = 0; i < 3; i++) {
			snprintf(uid, sizeof(uid), "few-%d", i);
			if (!busy_cancel(1001, uid)) { report("reply", shape, "CANCEL(1001,%s) of a queued task refused", uid); return; }
		}
		{
			struct hx_task_s obs[HX_MAXTASKS];
			int n = hx_observe(obs);
			if (n) { report("task-lingers", shape, "%d tasks left after every UID was cancelled, e.g. %s", n, obs[0].uid); return; }
		}
	}
	VT->traces++;
}

/* a task WITHOUT a limit with K (64, 65) jobs running at once is cancelled; a task with limit 2 is added; the old
 * jobs exit one by one while the new task's occurrences come due: every start of the new task is judged by its own
 * two jobs only */
static void
sweep_unlimited(int K)
{
	char req[1024], st0[32], shape[64];
	struct hx_reply_s rp;
	size_t o;
	int own = 0;	/* jobs of the new task alive */
	int ypids[8], ny = 0;

	snprintf(hist, sizeof(hist), "ADD(X, SECONDLY x200, no limit), %d on-time ticks (%d jobs alive), CANCEL(X), ADD(Y, SECONDLY x200, MAX-SIMUL:2), then alternately EXIT(oldest job of X) and a tick, 8 times", K, K);
	vd_desc("%s", hist);
	snprintf(shape, sizeof(shape), "sweep/unlimited-%d-jobs", K);
	o = (size_t)snprintf(req, sizeof(req), "BEGIN:VCALENDAR\nVERSION:2.0\nMETHOD:PUBLISH\nBEGIN:VEVENT\nUID:X\nSUMMARY:job\nDTSTART:%s\nRRULE:FREQ=SECONDLY;COUNT=200\nEND:VEVENT\nEND:VCALENDAR\n", (tpl_stamp(st0, sizeof(st0), HX_T0 + 1), st0));
	hx_request(&rp, 1000, req, o);
	if (rp.nsucc != 1) { report("reply", shape, "task refused"); return; }
	for (int k = 1; k <= K; k++) {
		int before = hx_nspawns;
		hx_tick(HX_T0 + k + 0.001);
		VT->transitions++;
		if (hx_nspawns != before + 1 || hx_spawns[hx_nspawns - 1].nd) {
			report("spawn-mode", shape, "no limit, %d jobs alive: occurrence %d was %s", k - 1, k, hx_nspawns == before ? "not started" : "started with the no-run flag");
			return;
		}
	}
	if (hx_nchld != K) { report("run-unsupervised", shape, "%d jobs run, the daemon watches %d", K, hx_nchld); return; }
	o = (size_t)snprintf(req, sizeof(req), "BEGIN:VCALENDAR\nVERSION:2.0\nMETHOD:CANCEL\nBEGIN:VEVENT\nUID:X\nEND:VEVENT\nEND:VCALENDAR\n");
	hx_request(&rp, 1000, req, o);
	VT->transitions++;
	if (rp.nsucc != 1) { report("reply", shape, "cancel refused"); return; }
	o = (size_t)snprintf(req, sizeof(req), "BEGIN:VCALENDAR\nVERSION:2.0\nMETHOD:PUBLISH\nBEGIN:VEVENT\nUID:Y\nSUMMARY:job\nDTSTART:%s\nRRULE:FREQ=SECONDLY;COUNT=200\nX-ECHS-MAX-SIMUL:2\nEND:VEVENT\nEND:VCALENDAR\n", (tpl_stamp(st0, sizeof(st0), HX_T0 + K + 1), st0));
	hx_request(&rp, 1000, req, o);
	VT->transitions++;
	if (rp.nsucc != 1) { report("reply", shape, "second task refused"); return; }
	for (int r = 0; r < 8; r++) {
		int before, want_nd;
		/* the oldest job of X goes */
		for (int c = 0; c < hx_nchld; c++) {
			int mine = 0;
			for (int q = 0; q < ny; q++) mine |= hx_chld[c]->pid == ypids[q];
			if (!mine) { hx_exit_child(c, 0); break; }
		}
		VT->transitions++;
		before = hx_nspawns;
		hx_tick(HX_T0 + K + 1 + r + 0.001);
		VT->transitions++;
		want_nd = own >= 2;
		if (hx_nspawns != before + 1) {
			report("spawn-count", shape, "round %d: %d spawns instead of 1", r, hx_nspawns - before);
			return;
		}
		if (hx_spawns[hx_nspawns - 1].nd != want_nd) {
			report("spawn-mode", shape, "limit 2, %d of its own jobs alive (and %d of the cancelled task): occurrence %d was started %s", own, K - 1 - r, r + 1,
			       hx_spawns[hx_nspawns - 1].nd ? "with the no-run flag" : "for real");
			return;
		}
		if (!want_nd) {
			if (ny < 8) ypids[ny++] = hx_spawns[hx_nspawns - 1].pid;
			own++;
		}
		if (r == 4) {
			/* one of Y's own jobs ends: the next occurrence runs for real again */
			for (int c = 0; c < hx_nchld; c++) {
				if (hx_chld[c]->pid == ypids[0]) { hx_exit_child(c, 0); own--; ypids[0] = -1; break; }
			}
			VT->transitions++;
		}
	}
	VT->traces++;
}

/* The limit must survive the way a task really travels: `echsq add' reads the user's file and sends what
 * echs_task_icalify() prints; echsd's checkpoint prints the same way and a restarted daemon reads that.  For every
 * combination of the three mail flags (absent / 0 / 1 each) a task with MAX-SIMUL:1 is parsed, printed, and the
 * printed text is what the daemon gets (once more printed and parsed for the second trip): two on-time ticks, the
 * second occurrence must be reported as not run. */
static void
sweep_via_echsq(int combo, int trips)
{
	static const char *const fl[] = {"X-ECHS-MAIL-OUT", "X-ECHS-MAIL-ERR", "X-ECHS-MAIL-RUN"};
	char text[2048], back[4096], st0[32], shape[96], flags[96] = "";
	struct hx_reply_s rp;
	size_t o;
	int c = combo;

	tpl_stamp(st0, sizeof(st0), HX_T0 + 1);
	o = (size_t)snprintf(text, sizeof(text), "BEGIN:VCALENDAR\nVERSION:2.0\nBEGIN:VEVENT\nUID:X\nSUMMARY:job\nDTSTART:%s\nRRULE:FREQ=SECONDLY;COUNT=6\n", st0);
	for (int i = 0; i < 3; i++, c /= 3) {
		if (c % 3) {
			o += (size_t)snprintf(text + o, sizeof(text) - o, "%s:%d\n", fl[i], c % 3 - 1);
			snprintf(flags + strlen(flags), sizeof(flags) - strlen(flags), "%s%s:%d", flags[0] ? " " : "", fl[i] + 7, c % 3 - 1);
		}
	}
	o += (size_t)snprintf(text + o, sizeof(text) - o, "X-ECHS-MAX-SIMUL:1\nEND:VEVENT\nEND:VCALENDAR\n");
	snprintf(hist, sizeof(hist), "task with MAX-SIMUL:1 and %s, printed as echsq add does (%d trip%s), ADD, two on-time ticks", flags[0] ? flags : "no mail flags", trips, trips > 1 ? "s" : "");
	vd_desc("%s", hist);
	snprintf(shape, sizeof(shape), "via-echsq/%s", combo == 0 ? "no-flags" : "mail-flags");
	for (int trip = 0; trip < trips; trip++) {
		ical_parser_t pp = NULL;
		echs_instruc_t ins;
		echs_task_t t = NULL;
		const int fd = (int)syscall(SYS_memfd_create, "hx-echsq", 0U);
		ssize_t n;
		if (echs_evical_push(&pp, text, o) >= 0) {
			for (;;) {
				ins = echs_evical_pull(&pp);
				if (ins.v != INSVERB_SCHE) break;
				if (ins.t != NULL && t == NULL) t = ins.t;
			}
		}
		ins = echs_evical_last_pull(&pp);
		if (t == NULL || fd < 0) {
			report("reply", shape, "the task text yields no task (trip %d)", trip + 1);
			return;
		}
		echs_icalify_init(fd, (echs_instruc_t){INSVERB_SCHE});
		echs_task_icalify(fd, t);
		echs_icalify_fini(fd);
		n = pread(fd, back, sizeof(back) - 1, 0);
		close(fd);
		free_echs_task(t);
		if (n <= 0) {
			report("reply", shape, "nothing printed (trip %d)", trip + 1);
			return;
		}
		back[n] = '\0';
		memcpy(text, back, (size_t)n + 1);
		o = (size_t)n;
	}
	hx_request(&rp, 1000, text, o);
	if (rp.nsucc != 1) {
		report("reply", shape, "the printed task was refused");
		return;
	}
	for (int k = 1; k <= 2; k++) {
		int before = hx_nspawns;
		hx_tick(HX_T0 + k + 0.001);
		VT->transitions++;
		if (hx_nspawns != before + 1) {
			report("spawn-count", shape, "tick %d: %d spawns instead of 1", k, hx_nspawns - before);
			return;
		}
		if (hx_spawns[hx_nspawns - 1].nd != (k > 1)) {
			report("spawn-mode", shape, "limit 1, %d job alive: occurrence %d was started %s", k - 1, k, hx_spawns[hx_nspawns - 1].nd ? "with the no-run flag" : "for real");
			return;
		}
	}
	VT->traces++;
}

/* a limit on the calendar is a default only: an event's own limit wins, an event without one inherits */
static void
sweep_inherit(int which)
{
	static const struct { int cal, ev, eff; } T[] = {{5, 1, 1}, {1, 3, 3}, {2, 0, 2}};
	char req[1024], st0[32], shape[64], evl[48] = "";
	struct hx_reply_s rp;
	size_t o;
	const int eff = T[which].eff;

	snprintf(hist, sizeof(hist), "ADD(X, SECONDLY x80, calendar-level MAX-SIMUL:%d, event-level %d) then %d+1 on-time ticks", T[which].cal, T[which].ev, eff);
	vd_desc("%s", hist);
	snprintf(shape, sizeof(shape), "sweep/calendar-limit-%s", T[which].ev ? "overridden-by-event" : "inherited");
	if (T[which].ev) snprintf(evl, sizeof(evl), "X-ECHS-MAX-SIMUL:%d\n", T[which].ev);
	o = (size_t)snprintf(req, sizeof(req), "BEGIN:VCALENDAR\nVERSION:2.0\nMETHOD:PUBLISH\nX-ECHS-MAX-SIMUL:%d\nBEGIN:VEVENT\nUID:X\nSUMMARY:job\nDTSTART:%s\nRRULE:FREQ=SECONDLY;COUNT=80\n%sEND:VEVENT\nEND:VCALENDAR\n",
			     T[which].cal, (tpl_stamp(st0, sizeof(st0), HX_T0 + 1), st0), evl);
	hx_request(&rp, 1000, req, o);
	if (rp.nsucc != 1) { report("reply", shape, "task refused"); return; }
	for (int k = 1; k <= eff + 1; k++) {
		int before = hx_nspawns;
		hx_tick(HX_T0 + k + 0.001);
		VT->transitions++;
		if (hx_nspawns != before + 1) {
			report("spawn-count", shape, "tick %d: %d spawns instead of 1", k, hx_nspawns - before);
			return;
		}
		if (hx_spawns[hx_nspawns - 1].nd != (k > eff)) {
			report("spawn-mode", shape, "calendar says %d, the event says %d (0 = nothing), %d jobs alive: occurrence %d was started %s", T[which].cal, T[which].ev, k - 1 < eff ? k - 1 : eff, k,
			       hx_spawns[hx_nspawns - 1].nd ? "with the no-run flag" : "for real");
			return;
		}
	}
	VT->traces++;
}

/* C11, many peers connected at the same time: K peers (users 2000+j, all different) connect and stay connected, then
 * each sends its ADD in the given order; every peer gets exactly one success reply on its own socket, no two live
 * peers share the daemon's per-connection state, and every task belongs to the user who sent it */
static void
conns_mode(int K, int order)
{
	static struct hx_conn_s hs[80];
	struct hx_task_s obs[HX_MAXTASKS];
	char req[1024], st0[32], shape[64];
	int live = 0, nacc = 0;

	snprintf(shape, sizeof(shape), "conns/K=%d/%s", K, order == 0 ? "first-come" : order == 1 ? "last-come" : "odd-then-even");
	snprintf(hist, sizeof(hist), "%d peers (uids 2000..) connect and hold their connections, then each sends ADD(c<j>, oneshot) in order %s",
		 K, order == 0 ? "of arrival" : order == 1 ? "of arrival reversed" : "odd ones first");
	vd_desc("%s", hist);
	tpl_stamp(st0, sizeof(st0), HX_T0 + 3600);
	for (int j = 0; j < K; j++) {
		hx_conn_open(&hs[j], 2000U + (unsigned)j);
		VT->transitions++;
		if (hs[j].refused) {
			if (live < 64) {
				report("refused", shape, "peer %d turned away while only %d connections were open", j, live);
				return;
			}
			continue;
		}
		for (int i = 0; i < j; i++) {
			if (!hs[i].refused && hs[i].c == hs[j].c) {
				report("shared-conn", shape, "peer %d (uid %u) was handed the connection state of peer %d (uid %u) who is still connected", j, 2000U + j, i, 2000U + i);
				return;
			}
		}
		live++;
	}
	for (int q = 0; q < K; q++) {
		int j = order == 0 ? q : order == 1 ? K - 1 - q : (q < K / 2 ? 2 * q + 1 : 2 * (q - K / 2));
		struct hx_reply_s rp;
		size_t o;
		if (j >= K || hs[j].refused) continue;
		o = (size_t)snprintf(req, sizeof(req),
			"BEGIN:VCALENDAR\nVERSION:2.0\nMETHOD:PUBLISH\nBEGIN:VEVENT\nUID:c%02d\nSUMMARY:job\nDTSTART:%s\nEND:VEVENT\nEND:VCALENDAR\n", j, st0);
		hx_conn_finish(&hs[j], &rp, req, o);
		VT->transitions++;
		if (rp.nsucc != 1 || rp.nfail) {
			report("reply", shape, "peer %d (uid %u) got %d success and %d failure replies to its one ADD", j, 2000U + j, rp.nsucc, rp.nfail);
			return;
		}
		nacc++;
	}
	{
		int n = hx_observe(obs);
		if (n != nacc) {
			report("task-count", shape, "%d ADDs acknowledged, %d tasks in the daemon", nacc, n);
			return;
		}
		for (int i = 0; i < n; i++) {
			int j = atoi(obs[i].uid + 1);
			if (obs[i].uid[0] != 'c' || obs[i].owner != 2000U + (unsigned)j) {
				report("owner", shape, "task %s sent by uid %u belongs to uid %u", obs[i].uid, 2000U + (unsigned)j, obs[i].owner);
				return;
			}
		}
	}
	VT->traces++;
}

static void
enumerate(void)
{
	struct ev_s e1[96], e2[96];
	int n1;
	const char *p = vd_opt("prop", "C04");

	prop = atoi(p + 1);
	maxdepth = (int)vd_opt_l("depth", 4);
	vd_count_cases = 1;
	if (VT == NULL) {
		VT = mmap(NULL, sizeof(*VT), PROT_READ | PROT_WRITE, MAP_SHARED | MAP_ANONYMOUS, -1, 0);
		if (VT == MAP_FAILED) {
			perror("mmap");
			_exit(5);
		}
	}
	/* forks are ~20x cheaper when parent and child stay on one CPU */
	if (vd_opt_l("pin", 1)) {
		/* no _GNU_SOURCE in this TU (echsd.c), so no CPU_SET: raw mask */
		unsigned long mask[16] = {0};
		long ncpu = sysconf(_SC_NPROCESSORS_ONLN);
		unsigned cpu = (unsigned)(vd_shard % (ncpu > 0 ? ncpu : 1));
		mask[cpu / (8 * sizeof(long))] |= 1UL << (cpu % (8 * sizeof(long)));
		(void)syscall(SYS_sched_setaffinity, 0L, (long)sizeof(mask), (long)mask, 0L, 0L, 0L);
	}
	if (vd_opt("t0", NULL)) {
		hx_t0 = hx_now = strtod(vd_opt("t0", "0"), NULL);
	}
	hx_boot(getenv("E2_LOG") == NULL);
	collide = !strcmp(vd_opt("uids", "plain"), "collide");
	if (prop == 11 || collide) {
		pick_colliding_uids();
	}
	memset(&M, 0, sizeof(M));
	hist[0] = '\0';

	hx_drift = strtod(vd_opt("drift", "0"), NULL);
	narrow = !strcmp(vd_opt("alpha", "full"), "narrow") ? 1 : !strcmp(vd_opt("alpha", "full"), "narrow2") ? 2 : 0;
	if (collide) narrow = narrow ? narrow : 1;
	users[1] = (unsigned)vd_opt_l("user2", 1001);
	if (!strcmp(vd_opt("mode", "explore"), "long")) {
		static const long NS[] = {65535, 65536, 65537, 200};
		for (size_t q = 0; q < sizeof(NS) / sizeof(*NS); q++) {
			if (!vd_next()) continue;
			vd_shape("long-series");
			memset(VT, 0, sizeof(*VT));
			fflush(stdout);
			pid_t c = fork();
			if (c == 0) {
				prctl(PR_SET_PDEATHSIG, SIGKILL);
				long_series(NS[q]);
				fflush(stdout);
				_exit(0);
			}
			int st;
			while (waitpid(c, &st, 0) < 0 && errno == EINTR);
			if (!(WIFEXITED(st) && WEXITSTATUS(st) == 0)) {
				vd_viol("crash/long-series", "daemon image died following a series of %ld occurrences (status %#x)", NS[q], st);
			}
			vd_count("states", VT->transitions + 1);
			vd_count("transitions", VT->transitions);
			vd_count("traces", VT->traces);
			vd_nontrivial();
			vd_sample("series of %ld occurrences followed to its end", NS[q]);
		}
		return;
	}
	if (!strcmp(vd_opt("mode", "explore"), "conns")) {
		static const int KS[] = {1, 2, 31, 32, 33, 62, 63, 64, 65, 70};
		for (size_t q = 0; q < 3 * sizeof(KS) / sizeof(*KS); q++) {
			const int K = KS[q / 3], order = (int)(q % 3);
			if (!vd_next()) continue;
			vd_shape("conns/K=%d", K);
			memset(VT, 0, sizeof(*VT));
			fflush(stdout);
			pid_t c = fork();
			if (c == 0) {
				prctl(PR_SET_PDEATHSIG, SIGKILL);
				conns_mode(K, order);
				fflush(stdout);
				_exit(0);
			}
			int st;
			while (waitpid(c, &st, 0) < 0 && errno == EINTR);
			if (!(WIFEXITED(st) && WEXITSTATUS(st) == 0)) {
				vd_viol("crash/conns", "daemon image died with %d peers connected at once (status %#x)", K, st);
			}
			vd_count("states", VT->transitions + 1);
			vd_count("transitions", VT->transitions);
			vd_count("traces", VT->traces);
			vd_nontrivial();
			vd_sample("%d peers connected at once, order %d", K, order);
		}
		return;
	}
	if (!strcmp(vd_opt("mode", "explore"), "busy")) {
		const int nvar = (int)vd_opt_l("variants", 3);
		const int skip = (int)vd_opt_l("skip", -1);	/* the 1500-UID history is thorough only */
		for (int v = 0; v < nvar; v++) {
			if (v == skip) continue;
			if (!vd_next()) continue;
			vd_shape("busy/%d", v);
			memset(VT, 0, sizeof(*VT));
			fflush(stdout);
			pid_t c = fork();
			if (c == 0) {
				prctl(PR_SET_PDEATHSIG, SIGKILL);
				busy_mode(v);
				fflush(stdout);
				_exit(0);
			}
			int st;
			while (waitpid(c, &st, 0) < 0 && errno == EINTR);
			if (!(WIFEXITED(st) && WEXITSTATUS(st) == 0)) {
				vd_viol("crash/busy", "daemon image died in busy history %d (status %#x)", v, st);
			}
			vd_count("states", VT->transitions + 1);
			vd_count("transitions", VT->transitions);
			vd_count("traces", VT->traces);
			vd_nontrivial();
			vd_sample("busy history %d: %ld requests", v, VT->transitions);
		}
		return;
	}
	if (!strcmp(vd_opt("mode", "explore"), "arm")) {
		/* C08, the daemon's wake-up timestamp as the daemon really computes it: for every day of the years
		 * y0..y1 a one-shot task is queued twice, once for the day as a DATE, once for a second of that day; what
		 * libev is armed for must be that very second (own civil arithmetic), for the all-day task a second of that
		 * day.  One case per year; the daemon lives from T0 = t0 (give t0=0 to have 1970..2099 in the future). */
		const int y0 = (int)vd_opt_l("y0", 1971), y1 = (int)vd_opt_l("y1", 2099);
		static const int mdays[] = {31, 28, 31, 30, 31, 30, 31, 31, 30, 31, 30, 31};
		for (int y = y0; y <= y1; y++) {
			if (!vd_next()) continue;
			vd_shape("arm/%s", y % 4 ? "common-year" : "leap-year");
			memset(VT, 0, sizeof(*VT));
			fflush(stdout);
			pid_t c = fork();
			if (c == 0) {
				prctl(PR_SET_PDEATHSIG, SIGKILL);
				for (int m = 1; m <= 12; m++) {
					const int nd = mdays[m - 1] + (m == 2 && !(y % 4) && (y % 100 || !(y % 400)));
					for (int d = 1; d <= nd; d++) {
						/* days from civil, Howard Hinnant's formula */
						const long yy = y - (m <= 2), era = (yy >= 0 ? yy : yy - 399) / 400;
						const long yoe = yy - era * 400, doy = (153 * (m + (m > 2 ? -3 : 9)) + 2) / 5 + d - 1;
						const long doe = yoe * 365 + yoe / 4 - yoe / 100 + doy, z = era * 146097 + doe - 719468;
						/* a second of the day that moves with the date */
						const long sod = (z * 7919L + 1L) % 86400L;
						for (int allday = 0; allday < 2; allday++) {
							char req[512];
							struct hx_reply_s rp;
							struct hx_task_s obs[HX_MAXTASKS];
							size_t o;
							if (allday) {
								o = (size_t)snprintf(req, sizeof(req), "BEGIN:VCALENDAR\nVERSION:2.0\nMETHOD:PUBLISH\nBEGIN:VEVENT\nUID:X\nSUMMARY:job\nDTSTART;VALUE=DATE:%04d%02d%02d\nEND:VEVENT\nEND:VCALENDAR\n", y, m, d);
							} else {
								o = (size_t)snprintf(req, sizeof(req), "BEGIN:VCALENDAR\nVERSION:2.0\nMETHOD:PUBLISH\nBEGIN:VEVENT\nUID:X\nSUMMARY:job\nDTSTART:%04d%02d%02dT%02ld%02ld%02ldZ\nEND:VEVENT\nEND:VCALENDAR\n", y, m, d, sod / 3600, sod / 60 % 60, sod % 60);
							}
							snprintf(hist, sizeof(hist), "ADD(X, one-shot on %04d-%02d-%02d%s) at T0=%.0f", y, m, d, allday ? " (DATE)" : " at a given second", HX_T0);
							vd_desc("%s", hist);
							hx_request(&rp, 1000, req, o);
							VT->transitions++;
							if (rp.nsucc != 1 || hx_observe(obs) != 1) {
								report("reply", "arm/refused", "the task was refused or is not in the table");
								continue;
							}
							const double want = (double)z * 86400.0 + (double)sod;
							if (!allday && obs[0].at != want) {
								report("armed-time", allday ? "arm/all-day" : "arm/timed", "armed for %.3f, the instant is %.0f (%+.0f s)", obs[0].at, want, obs[0].at - want);
							} else if (allday && !(obs[0].at >= (double)z * 86400.0 && obs[0].at < (double)(z + 1) * 86400.0)) {
								report("armed-time", "arm/all-day", "armed for %.3f, the day is %.0f..%.0f (%+.0f s from its start)", obs[0].at, (double)z * 86400.0, (double)(z + 1) * 86400.0, obs[0].at - (double)z * 86400.0);
							}
							VT->traces++;
						}
					}
				}
				fflush(stdout);
				_exit(0);
			}
			int st;
			while (waitpid(c, &st, 0) < 0 && errno == EINTR);
			if (!(WIFEXITED(st) && WEXITSTATUS(st) == 0)) {
				vd_viol("crash/arm", "daemon image died arming the days of %d (status %#x)", y, st);
			}
			vd_count("states", VT->transitions + 1);
			vd_count("transitions", VT->transitions);
			vd_count("traces", VT->traces);
			vd_nontrivial();
			if (vd_want_sample()) vd_sample("%d: every day armed as a DATE and at a second of the day", y);
		}
		return;
	}
	if (!strcmp(vd_opt("mode", "explore"), "sweep")) {
		for (int N = 0; N <= 62 + 5 + 54; N++) {
			if (!vd_next()) continue;
			vd_shape("sweep/N=%d", N);
			memset(VT, 0, sizeof(*VT));
			fflush(stdout);
			pid_t c = fork();
			if (c == 0) {
				prctl(PR_SET_PDEATHSIG, SIGKILL);
				if (N == 0) {
					sweep_zero();
				} else if (N <= 62) {
					sweep_limit(N);
				} else if (N <= 64) {
					sweep_unlimited(N == 63 ? 64 : 65);
				} else if (N <= 67) {
					sweep_inherit(N - 65);
				} else {
					sweep_via_echsq((N - 68) % 27, 1 + (N - 68) / 27);
				}
				fflush(stdout);
				_exit(0);
			}
			int st;
			while (waitpid(c, &st, 0) < 0 && errno == EINTR);
			if (!(WIFEXITED(st) && WEXITSTATUS(st) == 0)) {
				vd_viol("crash/sweep", "daemon image died in the sweep for N=%d (status %#x)", N, st);
			}
			vd_count("states", VT->transitions + 1);
			vd_count("transitions", VT->transitions);
			vd_count("traces", VT->traces);
			vd_nontrivial();
			if (N >= 1 && N <= 62) vd_sample("MAX-SIMUL:%d: %d real starts, one refused, one exit, one real start", N, N);
		}
		return;
	}
	/* one case per pair of first two events: the subtree below it is explored by forked images */
	n1 = enabled(e1, 96);
	for (int i = 0; i < n1; i++) {
		char name1[96], name2[96];
		int n2;

		evname(name1, sizeof(name1), &e1[i]);
		/* ask a forked image what is enabled after the first event */
		VT->nscratch = -1;
		fflush(stdout);
		pid_t c = fork();
		if (c == 0) {
			prctl(PR_SET_PDEATHSIG, SIGKILL);
			/* quiet: the pair cases below report about the first event themselves */
			int sv = dup(1);
			int nul = open("/dev/null", O_WRONLY);
			dup2(nul, 1);
			long svn = vd_sh->nviol;
			apply(&e1[i]);
			fflush(stdout);
			dup2(sv, 1);
			vd_sh->nviol = svn;
			struct ev_s tmp[96];
			int n = pruned_violation ? 0 : enabled(tmp, 96);
			for (int q = 0; q < n; q++) {
				VT->scratch[q][0] = tmp[q].kind, VT->scratch[q][1] = tmp[q].user, VT->scratch[q][2] = tmp[q].uid;
				VT->scratch[q][3] = tmp[q].arg, VT->scratch[q][4] = tmp[q].arg2;
			}
			VT->nscratch = n;
			_exit(0);
		}
		int st;
		while (waitpid(c, &st, 0) < 0 && errno == EINTR);
		n2 = VT->nscratch;
		if (n2 < 0) {
			/* the daemon did not survive the first event: one case for that */
			n2 = 0;
		}
		for (int q = 0; q < n2; q++) {
			e2[q] = (struct ev_s){VT->scratch[q][0], VT->scratch[q][1], VT->scratch[q][2], VT->scratch[q][3], VT->scratch[q][4]};
		}
		for (int j = 0; j < (n2 ? n2 : 1); j++) {
			if (!vd_next()) continue;
			if (n2) evname(name2, sizeof(name2), &e2[j]); else name2[0] = '\0';
			vd_desc("%s %s ...", name1, name2);
			vd_shape("prop=%s/first=%s", p, evkind(&e1[i]));
			memset(VT, 0, sizeof(*VT));
			/* run the subtree in a child so that this image stays pristine */
			fflush(stdout);
			c = fork();
			if (c == 0) {
				prctl(PR_SET_PDEATHSIG, SIGKILL);
				pruned_violation = 0;
				apply(&e1[i]);
				VT->transitions++;
				if (!pruned_violation && visit(canon(), maxdepth - 1) && n2 && maxdepth > 1) {
					step(&e2[j], 1);
				}
				fflush(stdout);
				_exit(0);
			}
			while (waitpid(c, &st, 0) < 0 && errno == EINTR);
			if (!(WIFEXITED(st) && WEXITSTATUS(st) == 0)) {
				vd_viol("crash/first-event", "daemon image died handling %s (status %#x)", name1, st);
			}
			vd_count("states", VT->states);
			vd_count("transitions", VT->transitions);
			vd_count("traces", VT->traces);
			vd_count("pruned_at_violation", VT->pruned);
			if (VT->states >= 2) vd_nontrivial();
			vd_sample("%s %s ... : %ld states, %ld transitions, %ld maximal histories below (depth %d)", name1, name2, VT->states, VT->transitions, VT->traces, maxdepth);
		}
	}
}

int
main(int argc, char *argv[])
{
	return vd_main(argc, argv, enumerate);
}
