"""helpers for harness/propdefs/*.py"""

def D(exe, quick=None, thorough=None, shards=16, label=None, tiers=('quick', 'thorough'), variant='plain', interp=None, env=None):
    def opts(l):
        out = []
        for x in (l or []):
            out += (['--opt', x] if '=' in x and not x.startswith('--') else [x])
        return out
    d = {'exe': 'build/%s/%s' % (variant, exe) if '/' not in exe else exe,
         'args': {'quick': opts(quick), 'thorough': opts(thorough if thorough is not None else quick)},
         'shards': shards, 'label': label or exe, 'tiers': tiers}
    if interp:
        d['interp'] = interp
    if env:
        d['env'] = env
    return d

